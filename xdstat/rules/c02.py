"""
C02 -- got/want verdicts are exact (structural clauses).
"""
import ast

from ..context import need
from ..loader import AnalysisError
from .. import graph
from ..roles import run_roles, RUN, is_self_attr, node_calls
from ..dataflow import field_name
from ..resolve import walk_scope
from .common import (fact_part_attr, fact_call_method, has_fact, fmt_facts, field_ops, BoolEval,
                     is_name, is_attr_of, is_empty_list)

EXPLANATION = (
    'Static rule conformance on DocTest.run, DocTest._post_run and checker.check_got_vs_want: '
    'R1 no exec/check site is reachable after a recorded failure (NEVER-AFTER on the CFG with exceptional edges); '
    'R2 the check site and the exception checker are edge-dominated by `part.want` true; '
    'R3 typestate of the unmatched-output buffer (only grows on want-less parts with the captured text, reset only after a checked want, no other store); '
    'R4 the evaluated value reaches the comparison only through repr(); '
    'R5 every exec site is edge-dominated by has_any_code() and the false branch records a skip; '
    'R6 the three summary flags are exclusive and exhaustive (truth table over two atoms); '
    'R7 the value compared at the check site is initialised in the same iteration. '
    'These are necessary conditions of the property; the comparison results on concrete strings and the '
    'trailing-sequence search are not decided.'
    ' R5b has_any_code applies its comment test to stripped lines. R9 got and want keep their sides at every call into the checker (ROLE-AGREE, same clause as C05.R12). R10 = C01.R9 (a want is compared with the value of a statement compiled on its own).')
DECIDES = ['NEVER-AFTER(fail store -> exec/check)', 'GUARD-DOM(check | want)', 'typestate(_unmatched_stdout)',
           'FLOW(got_eval -> repr -> check_output)', 'GUARD-DOM(exec | has_any_code) + skip record', 'FINITE-EVAL(summary flags)',
           'per-iteration initialisation of got_eval']
NOT_DECIDED = ['every string comparison result', 'the search over trailing sequences in DoctestPart.check',
               'placement of the final-expression split in the parser']


def run(ctx):
    for fn in (r1_never_after, r2_check_guard, r3_unmatched_typestate, r4_repr_fallback, r4b_which_text_is_compared,
               r5_comment_only, r5b_code_predicate_on_stripped_lines, r6_summary_flags, r7_got_eval_fresh, r8_trailing_sequences, r9_got_want_roles, r10_single_statement_modes_are_cut, r11_value_kept_iff_eval_mode, r5c_code_predicate_on_samples):
        ctx.rep.rule(fn, ctx)


# ---------------------------------------------------------------------------
def r1_never_after(ctx):
    rr = run_roles(ctx)
    rep = ctx.rep
    rep.floor('C02.R1', 'fail stores', len(rr.fail_stores), 5)
    rep.floor('C02.R1', 'exec sites', len(rr.exec_sites), 1)
    rep.floor('C02.R1', 'check sites', len(rr.check_sites), 1)
    targets = {id(n): ('exec site', c) for (n, c) in rr.exec_sites}
    targets.update({id(n): ('check site', c) for (n, c) in rr.check_sites})
    targets.update({id(n): ('exception check', c) for (n, c) in rr.check_exc_sites})
    for fs in rr.fail_stores:
        p = graph.path(fs.nsucc() + [t for t, _ in fs.esucc()], lambda n: id(n) in targets)
        holds = p is None
        wit = None
        det = 'no exec/check site reachable after the failure is recorded'
        if not holds:
            kind, c = targets[id(p[-1])]
            wit = graph.fmt_path([fs] + p, rr.f.module.relpath)
            det = 'after recording a failure the run can still reach the %s `%s` at line %d' % (kind, ctx.src(c), p[-1].lineno)
        rep.ob('C02.R1', ctx.loc(rr.f, fs.ast), ctx.src(fs.ast), holds, det, witness=wit, anchor=RUN)


# ---------------------------------------------------------------------------
def r2_check_guard(ctx):
    rr = run_roles(ctx)
    rep = ctx.rep
    dom = ctx.dom(rr.g, rr.iter_entry, rr.cut)
    for what, sites in (('check site', rr.check_sites), ('exception check', rr.check_exc_sites)):
        for (n, c) in sites:
            need(dom.has(n), 'C02.R2: %s outside the part loop' % what)
            facts = graph.guard_facts(dom, n)
            holds = has_fact(facts, lambda f: fact_part_attr(f, rr.part_var, 'want'), True)
            rep.ob('C02.R2', ctx.loc(rr.f, c), ctx.src(c), holds,
                   ('%s is edge-dominated by `%s.want` true' % (what, rr.part_var)) if holds else
                   ('%s can execute for a part without a want; dominating guards: %s' % (what, fmt_facts(facts))),
                   anchor=RUN)


# ---------------------------------------------------------------------------
def _want_filter(rr, want_truth):
    """edge filter: keep only branches consistent with part.want == want_truth"""
    def ef(a, b, kind, tok):
        if b.kind == 'branch' and b.attrs['test'].kind == 'test':
            for f in graph.facts_of(b.attrs['test'].ast, b.attrs['polarity']):
                p = fact_part_attr(f, rr.part_var, 'want')
                if p is not None and p != want_truth:
                    return False
        return kind == 'n'
    return ef


def r3_unmatched_typestate(ctx):
    rr = run_roles(ctx)
    rep = ctx.rep
    FIELD = '_unmatched_stdout'
    cls = rr.f.cls
    # (c) every operation on the field in the class, classified
    all_ops = []
    for key, m in cls.methods.items():
        recv = m.node.args.args[0].arg if m.node.args.args else 'self'
        for (kind, node, val) in field_ops(m.node, recv, FIELD):
            all_ops.append((m, kind, node, val))
    rep.floor('C02.R3', 'operations on the unmatched buffer', len(all_ops), 3)
    for (m, kind, node, val) in all_ops:
        ok = kind in ('reset', 'grow')
        rep.ob('C02.R3c', ctx.loc(m, node), ctx.src(node), ok,
               'operation classified as %s' % kind if ok else
               'the unmatched-output buffer is overwritten/mutated by a %s that is neither an empty reset nor a grow: earlier unmatched output is lost' % kind,
               nontrivial=False, anchor=m.qualname)
    # operations inside RUN's part loop
    run_ops = [(kind, node, val) for (m, kind, node, val) in all_ops if m is rr.f]
    grow_nodes, reset_nodes = [], []
    for (kind, node, val) in run_ops:
        for n in rr.g.nodes_containing(node):
            if rr.in_loop(n):
                (grow_nodes if kind == 'grow' else reset_nodes).append((n, node, val))
    cap_names = set()
    for w in rr.cap_withs:
        ce = w.ast.context_expr
        if isinstance(ce, ast.Name):
            cap_names.add(ce.id)
        if w.ast.optional_vars is not None and isinstance(w.ast.optional_vars, ast.Name):
            cap_names.add(w.ast.optional_vars.id)
    need(cap_names, 'C02.R3: capture object not found')
    dom = ctx.dom(rr.g, rr.iter_entry, rr.cut)
    # (a) grows: value is the capture text, guarded by want false
    rep.ob('C02.R3a', ctx.loc(rr.f, rr.loop.ast), 'want-less part -> buffer grows', bool(grow_nodes),
           '%d grow site(s) inside the part loop' % len(grow_nodes) if grow_nodes else
           'output of want-less parts is never added to the unmatched buffer: a later want can no longer match it', anchor=RUN)
    for (n, node, val) in grow_nodes:
        from_cap = _is_cap_text(rr, n, val, cap_names)
        facts = graph.guard_facts(dom, n)
        guarded = has_fact(facts, lambda f: fact_part_attr(f, rr.part_var, 'want'), False)
        rep.ob('C02.R3a', ctx.loc(rr.f, node), ctx.src(node), from_cap and guarded,
               'grows with the captured text of this part, only for want-less parts' if (from_cap and guarded) else
               ('grow value does not flow from the capture text' if not from_cap else 'grow is not restricted to want-less parts: %s' % fmt_facts(facts)),
               anchor=RUN)
    # (b) resets in the loop: guarded by want true, and never before the check site
    for (n, node, val) in reset_nodes:
        facts = graph.guard_facts(dom, n)
        guarded = has_fact(facts, lambda f: fact_part_attr(f, rr.part_var, 'want'), True)
        check_after = graph.path(n.nsucc(), lambda x: any(x is cn for (cn, _) in rr.check_sites), avoid=rr.cut)
        ok = guarded and check_after is None
        rep.ob('C02.R3b', ctx.loc(rr.f, node), ctx.src(node), ok,
               'reset happens only for parts with a want and after the check' if ok else
               ('the buffer is cleared for parts without a want (guards: %s)' % fmt_facts(facts) if not guarded else
                'the buffer is cleared before the want is checked'), anchor=RUN)
    # path counts from every exec site to the end of the iteration
    is_grow = lambda x: any(x is n for (n, _, _) in grow_nodes)
    is_reset = lambda x: any(x is n for (n, _, _) in reset_nodes)
    for want_truth in (False, True):
        ef = _want_filter(rr, want_truth)
        for (en, ec) in rr.exec_sites:
            for what, pred, exp in (('grow', is_grow, (1, 1) if not want_truth else (0, 0)),
                                    ('reset', is_reset, (0, 0) if not want_truth else (1, 1))):
                res = graph.count_events(en, pred, lambda x: x is rr.loop, efilter=ef, avoid=())
                if not res:
                    # the successful completion of this exec site never returns to the loop head under this want value
                    continue
                (_, lo, hi, wlo, whi) = next(iter(res.values()))
                ok = (lo, hi) == exp
                rep.ob('C02.R3p', ctx.loc(rr.f, ec), '%s -> next part | want=%s : %s' % (ctx.src(ec), want_truth, what), ok,
                       'on every normal path the buffer %s count is in [%d,%d] (required %s)' % (what, lo, hi, list(exp)),
                       witness=None if ok else graph.fmt_path(wlo if lo != exp[0] else whi, rr.f.module.relpath), anchor=RUN)


def _is_cap_text(rr, n, val, cap_names, depth=3):
    if val is None:
        return False
    if isinstance(val, ast.Attribute) and val.attr == 'text' and isinstance(val.value, ast.Name) and val.value.id in cap_names:
        return True
    if isinstance(val, ast.Name) and depth > 0:
        defs = rr.rd.at(n, val.id)
        return bool(defs) and all(isinstance(d.value, ast.AST) and _is_cap_text(rr, d.node, d.value, cap_names, depth - 1) for d in defs)
    if isinstance(val, ast.List) and len(val.elts) == 1:
        # `+= [cap.text]`
        return _is_cap_text(rr, n, val.elts[0], cap_names, depth)
    return False


# ---------------------------------------------------------------------------
def r4_repr_fallback(ctx):
    rep = ctx.rep
    q = 'xdoctest.checker.check_got_vs_want'
    f = ctx.func(q)
    params = [a.arg for a in f.node.args.args]
    need('got_eval' in params, 'C02.R4: parameter got_eval vanished from check_got_vs_want')
    uses = [n for n in ast.walk(f.node) if isinstance(n, ast.Name) and n.id == 'got_eval' and isinstance(n.ctx, ast.Load)]
    stores = [n for n in ast.walk(f.node) if isinstance(n, ast.Name) and n.id == 'got_eval' and isinstance(n.ctx, ast.Store)]
    need(not stores, 'C02.R4: got_eval is rebound inside check_got_vs_want (unrecognised idiom)')
    rep.floor('C02.R4', 'uses of got_eval', len(uses), 2)
    n_repr = 0
    for u in uses:
        p = u._parent
        kind = None
        if isinstance(p, ast.Compare) and len(p.ops) == 1 and isinstance(p.ops[0], (ast.Is, ast.IsNot)):
            other = p.comparators[0] if p.left is u else p.left
            if (isinstance(other, ast.Attribute) and other.attr == 'NOT_EVALED') or is_name(other, 'NOT_EVALED'):
                kind = 'identity test against NOT_EVALED'
        elif isinstance(p, ast.Call) and is_name(p.func, 'repr') and p.args and p.args[0] is u and ctx.res.resolve_call(f, p) == ('builtin', 'repr'):
            kind = 'repr()'
            n_repr += 1
        elif isinstance(p, ast.Call) and is_name(p.func, 'type') and ctx.res.resolve_call(f, p) == ('builtin', 'type'):
            kind = 'type() for a message'
        elif isinstance(p, ast.Call) and p.args and p.args[0] is u and _repr_helper(ctx, f, p) is not None:
            kind = 'repr() through the helper %s' % _repr_helper(ctx, f, p).name
            n_repr += 1
        rep.ob('C02.R4', ctx.loc(f, u), ctx.src(p), kind is not None,
               'value used only as %s' % kind if kind else
               'the evaluated value is inspected / used outside repr() and the NOT_EVALED identity test: which wants are accepted then depends on the value itself '
               '(or the got text is not the repr the property specifies)',
               anchor=q)
    # the repr result must reach the first argument of check_output
    g = ctx.cfg(f)
    rd = ctx.rd(f)
    reaches = False
    for n in g.nodes:
        for c in node_calls(n):
            r = ctx.res.resolve_call(f, c)
            if r[0] == 'repo' and r[1][0].qualname == 'xdoctest.checker.check_output' and c.args:
                a0 = c.args[0]
                def is_repr(e):
                    return _is_repr_of(e, 'got_eval') or (isinstance(e, ast.Call) and len(e.args) == 1 and is_name(e.args[0], 'got_eval') and _repr_helper(ctx, f, e) is not None)
                if is_repr(a0):
                    reaches = True
                elif isinstance(a0, ast.Name):
                    # through plain copies of the name (a value handed on by an expanded helper)
                    work = [(n, a0.id, 0)]
                    while work:
                        (nd, nm, depth) = work.pop()
                        for d in rd.at(nd, nm):
                            if isinstance(d.value, ast.AST) and is_repr(d.value):
                                reaches = True
                            elif isinstance(d.value, ast.Name) and d.kind == 'assign' and depth < 3:
                                work.append((d.node, d.value.id, depth + 1))
    rep.ob('C02.R4', ctx.loc(f, f.node), 'repr(got_eval) -> check_output(got, ...)', reaches and n_repr >= 1,
           'repr of the evaluated value reaches the comparison' if reaches else
           'no repr(got_eval) reaches check_output: the value fallback is gone', anchor=q)


def _repr_helper(ctx, f, call):
    """the repository function `call` resolves to, if it is a thin wrapper returning repr(<its only parameter>) (inlining bound 1)"""
    r = ctx.res.resolve_call(f, call)
    if r[0] != 'repo' or len(r[1]) != 1:
        return None
    h = r[1][0]
    a = h.node.args.args
    if len(a) != 1 or h.cls is not None:
        return None
    p = a[0].arg
    rets = [x for x in ast.walk(h.node) if isinstance(x, ast.Return) and x.value is not None]
    if not rets or not all(_is_repr_of(x.value, p) for x in rets):
        return None
    for u in ast.walk(h.node):
        if isinstance(u, ast.Name) and u.id == p and isinstance(u.ctx, ast.Load):
            par = u._parent
            if not (isinstance(par, ast.Call) and isinstance(par.func, ast.Name) and par.func.id in ('repr', 'type')):
                return None
        if isinstance(u, ast.Name) and u.id == p and isinstance(u.ctx, ast.Store):
            return None
    return h


def _is_repr_of(e, name):
    return isinstance(e, ast.Call) and is_name(e.func, 'repr') and len(e.args) == 1 and is_name(e.args[0], name)


def _stripped_subject(f, e, comp_stack, depth=0):
    """True / False / None(unknown): does expression e denote a line with its leading blanks removed?"""
    if depth > 4:
        return None
    if isinstance(e, ast.Call) and isinstance(e.func, ast.Attribute) and e.func.attr in ('strip', 'lstrip') and not e.args:
        return True
    if isinstance(e, ast.Name):
        # bound by an enclosing comprehension?
        for comp in comp_stack:
            for gen in comp.generators:
                if isinstance(gen.target, ast.Name) and gen.target.id == e.id:
                    it = gen.iter
                    if isinstance(it, ast.Name):
                        ds = [x for x in walk_scope(f.node) if isinstance(x, ast.Assign) and len(x.targets) == 1 and is_name(x.targets[0], it.id)]
                        if len(ds) == 1 and isinstance(ds[0].value, (ast.ListComp, ast.GeneratorExp)):
                            return _stripped_subject(f, ds[0].value.elt, [ds[0].value], depth + 1)
                        if len(ds) == 1:
                            it = ds[0].value
                        else:
                            return None
                    if isinstance(it, (ast.ListComp, ast.GeneratorExp)):
                        return _stripped_subject(f, it.elt, [it], depth + 1)
                    if isinstance(it, ast.Attribute):
                        return False        # iterates the raw lines of the part
                    return None
        ds = [x for x in walk_scope(f.node) if isinstance(x, ast.Assign) and len(x.targets) == 1 and is_name(x.targets[0], e.id)]
        if len(ds) == 1:
            return _stripped_subject(f, ds[0].value, comp_stack, depth + 1)
        return None
    if isinstance(e, ast.Attribute):
        return False
    return None


def r5b_code_predicate_on_stripped_lines(ctx):
    """`has_any_code` decides "only comments ran".  A doctest line keeps the blanks that follow its prompt (`>>>     # note`), so the comment test
    has to look at the stripped line; on the raw line an indented comment counts as code and an all-comment doctest is reported passed, not skipped."""
    rep = ctx.rep
    f = ctx.func('xdoctest.doctest_part.DoctestPart.has_any_code')
    tests = []

    def visit(node, stack):
        for ch in ast.iter_child_nodes(node):
            st = stack + [ch] if isinstance(ch, (ast.ListComp, ast.GeneratorExp, ast.SetComp)) else stack
            if isinstance(ch, ast.Call) and isinstance(ch.func, ast.Attribute) and ch.func.attr == 'startswith' and ch.args and isinstance(ch.args[0], ast.Constant) and ch.args[0].value == '#':
                tests.append((ch, ch.func.value, st))
            visit(ch, st)
    visit(f.node, [])
    rep.floor('C02.R5b', 'comment tests in has_any_code', len(tests), 1)
    for (c, subj, st) in tests:
        v = _stripped_subject(f, subj, st)
        need(v is not None, 'C02.R5b: where the line tested by %s comes from was not recognised' % ctx.src(c))
        rep.ob('C02.R5b', ctx.loc(f, c), ctx.src(c), v,
               'the comment test sees the line without its leading blanks' if v else
               'the comment test is applied to the raw executable line: `>>>     # comment` keeps its blanks after the prompt is cut, does not start with "#", and counts as code -- '
               'a doctest in which only such comments "ran" is reported as passed instead of skipped', anchor=f.qualname)


# ---------------------------------------------------------------------------
def r5_comment_only(ctx):
    rr = run_roles(ctx)
    rep = ctx.rep
    dom = ctx.dom(rr.g, rr.iter_entry, rr.cut)
    pred = lambda f: fact_call_method(f, rr.part_var, 'has_any_code')
    guard_branches = set()
    for (n, c) in rr.exec_sites:
        facts = graph.guard_facts(dom, n)
        holds = has_fact(facts, pred, True)
        for f in facts:
            if pred(f) is True:
                guard_branches.add(f.origin)
        rep.ob('C02.R5', ctx.loc(rr.f, c), ctx.src(c), holds,
               'exec site is edge-dominated by has_any_code() true' if holds else
               'a part without code can be executed (guards: %s): a comment-only doctest would count as run' % fmt_facts(facts), anchor=RUN)
    # the false branch of that test records a skip before the iteration ends
    for b in guard_branches:
        t = b.attrs['test']
        others = [x for x in t.nsucc() if x.kind == 'branch' and x is not b]
        for ob in others:
            _, wit = graph.env_search([ob], lambda x: x is rr.loop or x is rr.done_branch or x is rr.g.exit,
                                      efilter=graph.normal_only, avoid=rr.skip_records)
            rep.ob('C02.R5', ctx.loc(rr.f, t.ast), 'not %s -> skip record' % ctx.src(t.ast), wit is None,
                   'the no-code branch passes a skip record before the next part' if wit is None else
                   'a part without code is dropped without being recorded as skipped',
                   witness=None if wit is None else graph.fmt_path(wit, rr.f.module.relpath), anchor=RUN)


# ---------------------------------------------------------------------------
POST = 'xdoctest.doctest_example.DocTest._post_run'


def summary_flag_exprs(ctx):
    """{key: (expr, node)} of the summary dict literal returned by _post_run"""
    f = ctx.func(POST)
    g = ctx.cfg(f)
    rd = ctx.rd(f)
    dicts = []
    for n in g.nodes:
        if n.kind == 'stmt' and isinstance(n.ast, (ast.Assign, ast.Return)):
            v = n.ast.value
            if isinstance(v, ast.Dict):
                keys = [k.value for k in v.keys if isinstance(k, ast.Constant)]
                if {'passed', 'skipped', 'failed'} <= set(keys):
                    dicts.append((n, v))
    need(len(dicts) == 1, 'C02.R6: summary dict literal with passed/skipped/failed not found in _post_run')
    n, d = dicts[0]
    out = {}
    for k, v in zip(d.keys, d.values):
        if isinstance(k, ast.Constant):
            out[k.value] = v
    return f, g, rd, n, out


def make_flag_evaluator(ctx, f, rd, node):
    recv = f.node.args.args[0].arg

    def atom_of(e):
        if isinstance(e, ast.Compare) and len(e.ops) == 1:
            l, op, r = e.left, e.ops[0], e.comparators[0]
            if isinstance(op, (ast.Is, ast.IsNot, ast.Eq, ast.NotEq)):
                for a, b in ((l, r), (r, l)):
                    if is_attr_of(a, recv, 'exc_info') and isinstance(b, ast.Constant) and b.value is None:
                        return ('A', isinstance(op, (ast.IsNot, ast.NotEq)))
            if isinstance(op, (ast.Eq, ast.NotEq)):
                def is_len(x, attr):
                    return isinstance(x, ast.Call) and is_name(x.func, 'len') and len(x.args) == 1 and is_attr_of(x.args[0], recv, attr)
                for a, b in ((l, r), (r, l)):
                    if is_len(a, '_skipped_parts') and is_len(b, '_parts'):
                        return ('B', isinstance(op, ast.Eq))
        # `self.anything_ran()`: some part stored its captured output.  Related to the other atoms by C15.R4 (see the domain below).
        if isinstance(e, ast.Call) and isinstance(e.func, ast.Attribute) and e.func.attr == 'anything_ran' and is_name(e.func.value, recv) and not e.args:
            return ('U', True)
        return None

    def resolve_name(nm):
        defs = rd.at(node, nm.id)
        if len(defs) == 1 and isinstance(defs[0].value, ast.AST) and defs[0].kind == 'assign':
            # evaluate the definition where it was made (its own operands may have been rebound later
            # only if they are rebound between; the function is straight-line before the dict)
            return defs[0].value
        return None
    return BoolEval(atom_of, resolve_name, host=f)


def r6_summary_flags(ctx, rule='C02.R6'):
    rep = ctx.rep
    f, g, rd, node, exprs = summary_flag_exprs(ctx)
    ev = make_flag_evaluator(ctx, f, rd, node)
    spec = {'failed': lambda A, B: A, 'skipped': lambda A, B: B, 'passed': lambda A, B: (not A) and (not B)}
    # atoms: A = a failure was recorded, B = every part was skip-recorded, U = some part stored captured output (anything_ran()).
    # reachable valuations: A and B exclude each other (a skip-recorded part never reaches a fail store: C02.R1/R5); a skip-recorded part stores no
    # output and an executed one does (C15.R4), so B -> not U and (not A and not B) -> U; after a failure U is free (a compile error, a directive error
    # or an import error is recorded before any part stored output).
    domain = [(A, B, U) for A in (False, True) for B in (False, True) for U in (False, True)
              if not (A and B) and (not B or not U) and (A or B or U)]
    table = {}
    for key in ('passed', 'skipped', 'failed'):
        rows = []
        ok = True
        for (A, B, U) in domain:
            got = ev.eval(exprs[key], {'A': A, 'B': B, 'U': U})
            rows.append({'failure_recorded': A, 'all_parts_skipped': B, 'anything_ran': U, key: got})
            if got != spec[key](A, B):
                ok = False
        table[key] = rows
        bad = [r for r in rows if r[key] != spec[key](r['failure_recorded'], r['all_parts_skipped'])]
        rep.ob(rule, ctx.loc(f, exprs[key]), "summary['%s'] = %s" % (key, ctx.src(exprs[key])), ok,
               'truth table over the reachable valuations of (failure recorded, all parts skipped, anything ran) equals the specification' if ok else
               'summary flag %r differs from its specification on %s' % (key, bad), anchor=POST)
    rep.note('summary_flag_truth_tables', table)
    for (A, B, U) in domain:
        vals = {k: ev.eval(exprs[k], {'A': A, 'B': B, 'U': U}) for k in ('passed', 'skipped', 'failed')}
        ok = sum(1 for v in vals.values() if v) == 1
        rep.ob(rule, ctx.loc(f, node.ast), 'exactly one flag | failure=%s all_skipped=%s anything_ran=%s' % (A, B, U), ok,
               'flags %s' % vals, anchor=POST)


# ---------------------------------------------------------------------------
def r7_got_eval_fresh(ctx):
    rr = run_roles(ctx)
    rep = ctx.rep
    dom = ctx.dom(rr.g, rr.iter_entry, rr.cut)
    for (n, c) in rr.check_sites:
        # the argument carrying the evaluated value
        arg = None
        if len(c.args) >= 2:
            arg = c.args[1]
        for kw in c.keywords:
            if kw.arg == 'got_eval':
                arg = kw.value
        need(isinstance(arg, ast.Name), 'C02.R7: evaluated-value argument of the check site is not a local name')
        defs = rr.rd.at(n, arg.id)
        inits = [d for d in defs if _is_not_evaled(d.value)]
        def exec_result(d, depth=0):
            v = d.value
            if isinstance(v, ast.AST) and any(isinstance(x, ast.Call) and any(x is ec for (_, ec) in rr.exec_sites) for x in ast.walk(v)):
                return True
            if isinstance(v, ast.Name) and depth < 3:
                ds = rr.rd.at(d.node, v.id)
                return bool(ds) and all(exec_result(dd, depth + 1) for dd in ds)       # a plain copy of an exec-site result
            return False
        from_exec = [d for d in defs if exec_result(d)]
        other = [d for d in defs if d not in inits and d not in from_exec]
        init_dom = [d for d in rr.rd.defs_of(arg.id) if _is_not_evaled(d.value) and dom.has(d.node) and dom.dominates(d.node, n)]
        ok = not other and bool(init_dom)
        rep.ob('C02.R7', ctx.loc(rr.f, c), '%s at %s' % (arg.id, ctx.src(c)), ok,
               'reaching definitions: %d NOT_EVALED initialiser(s), %d exec-site result(s); the initialiser dominates the check within one iteration' % (len(inits), len(from_exec))
               if ok else ('value compared may come from %s' % [repr(d) for d in other] if other else
                           'no NOT_EVALED initialiser dominates the check inside the iteration: the value of an earlier part can be compared'),
               anchor=RUN)


def _is_not_evaled(v):
    return isinstance(v, ast.AST) and ((isinstance(v, ast.Attribute) and v.attr == 'NOT_EVALED') or (isinstance(v, ast.Name) and v.id == 'NOT_EVALED'))


# ---------------------------------------------------------------------------
CHECK = 'xdoctest.doctest_part.DoctestPart.check'


def r8_trailing_sequences(ctx):
    """shape of the search over trailing sequences of unmatched outputs"""
    from ..affine import Evaluator, parse_spec
    rep = ctx.rep
    f = ctx.func(CHECK)
    g = ctx.cfg(f)
    rd = ctx.rd(f)
    params = [a.arg for a in f.node.args.args]
    need({'got_stdout', 'got_eval', 'runstate', 'unmatched'} <= set(params), 'C02.R8: signature of DoctestPart.check changed')
    cmp_calls = [(n, c) for n in g.nodes for c in node_calls(n) if ctx.res.resolve_call(f, c)[0] == 'repo' and ctx.res.resolve_call(f, c)[1][0].qualname == 'xdoctest.checker.check_got_vs_want']
    rep.floor('C02.R8', 'comparator calls in DoctestPart.check', len(cmp_calls), 1)
    nonempty_heads = []
    for (n, c) in cmp_calls:
        loops = [fr for fr in n.frames if fr.kind == 'loop']
        if not loops:
            rep.ob('C02.R8', ctx.loc(f, c), ctx.src(c), False, 'the want is compared with one candidate only: earlier unmatched output can no longer satisfy it', anchor=CHECK)
            continue
        head = loops[-1].head
        it = head.ast.iter
        ivar = head.ast.target.id if isinstance(head.ast.target, ast.Name) else None
        # (a) candidate list T = unmatched + [got_stdout]
        cand = c.args[1] if len(c.args) > 1 else None
        tname = None
        ok_c = False
        if isinstance(cand, ast.Name):
            for d in rd.at(n, cand.id):
                v = d.value
                if isinstance(v, ast.Call) and isinstance(v.func, ast.Attribute) and v.func.attr == 'join' and isinstance(v.func.value, ast.Constant) and v.func.value.value == '' and v.args:
                    sl = v.args[0]
                    if isinstance(sl, ast.Subscript) and isinstance(sl.value, ast.Name) and isinstance(sl.slice, ast.Slice) and sl.slice.upper is None and \
                            isinstance(sl.slice.lower, ast.UnaryOp) and isinstance(sl.slice.lower.op, ast.USub) and is_name(sl.slice.lower.operand, ivar):
                        tname = sl.value.id
                        ok_c = True
        rep.ob('C02.R8', ctx.loc(f, c), 'candidate = "".join(T[-i:])', ok_c,
               'the i-th candidate is the concatenation of the last i outputs' if ok_c else 'the candidate text is not the concatenation of a trailing sequence of the outputs', anchor=CHECK)
        if tname is None:
            continue
        tdefs = rd.at(head, tname)
        ok_t = False
        for d in tdefs:
            v = d.value
            if isinstance(v, ast.BinOp) and isinstance(v.op, ast.Add) and isinstance(v.left, ast.Name) and isinstance(v.right, ast.List) and len(v.right.elts) == 1 and is_name(v.right.elts[0], 'got_stdout'):
                ldefs = rd.at(d.node, v.left.id)
                ok_t = v.left.id == 'unmatched' and all(dd.kind == 'param' or is_empty_list(dd.value) for dd in ldefs)
        rep.ob('C02.R8', ctx.loc(f, tdefs[0].node.ast if tdefs else f.node), 'T = unmatched + [got_stdout]', ok_t and len(tdefs) == 1,
               'earlier unmatched outputs first, the output of this part last' if ok_t else 'the list of outputs is not `unmatched + [got_stdout]` (order or content changed)', anchor=CHECK)
        # (b) i ranges over 1 .. len(T)
        ok_r = False
        if isinstance(it, ast.Call) and is_name(it.func, 'range') and len(it.args) == 2:
            ev = Evaluator({'len(%s)' % tname: 'N'})
            lo = ev.aeval(it.args[0], {})
            hi = ev.aeval(it.args[1], {})
            ok_r = lo == parse_spec('1') and hi == parse_spec('N + 1')
        rep.ob('C02.R8', ctx.loc(f, it), ctx.src(it), ok_r,
               'every suffix length 1..len(T) is tried' if ok_r else 'not every trailing sequence is tried (range %s)' % ctx.src(it), anchor=CHECK)
        if ok_r and ok_t and len(tdefs) == 1:
            nonempty_heads.append(head)       # range(1, len(unmatched + [x]) + 1) has at least one element
        # (d) same value / state for every candidate
        a0 = c.args[0] if c.args else None
        if isinstance(a0, ast.Name):
            ds0 = rd.at(n, a0.id)
            if len(ds0) == 1 and ds0[0].kind == 'assign' and isinstance(ds0[0].value, ast.AST):
                a0 = ds0[0].value       # a local alias of the want
        ok_d = len(c.args) >= 4 and is_attr_of(a0, params[0], 'want') and is_name(c.args[2], 'got_eval') and is_name(c.args[3], 'runstate') and \
            all(d.kind == 'param' for nm in ('got_eval', 'runstate') for d in rd.at(n, nm))
        rep.ob('C02.R8', ctx.loc(f, c), ctx.src(c), ok_d, 'compares part.want with the candidate under the same value and run state' if ok_d else 'comparator arguments changed', nontrivial=False, anchor=CHECK)
    # (e) normal exit requires a comparison that returned normally
    dom = ctx.dom(g, g.entry)
    facts = graph.guard_facts(dom, g.exit) if dom.has(g.exit) else []
    flag = [fa for fa in facts if isinstance(fa.expr, ast.Name) and fa.polarity is True]
    ok_e = False
    for fa in flag:
        sets = [d for d in rd.defs_of(fa.expr.id) if isinstance(d.value, ast.Constant) and d.value.value is True]
        others = [d for d in rd.defs_of(fa.expr.id) if not (isinstance(d.value, ast.Constant) and isinstance(d.value.value, bool))]
        if sets and not others:
            good = True
            for d in sets:
                # reached only by normal flow from a comparator call
                p = graph.must_pass([g.entry], lambda x, dn=d.node: x is dn, through=[n for (n, _) in cmp_calls], efilter=graph.normal_only)
                via_handler = graph.path([h for h in g.nodes if h.kind == 'handler'], lambda x, dn=d.node: x is dn, efilter=graph.normal_only, avoid=[n for (n, _) in cmp_calls])
                if p is not None or via_handler is not None:
                    good = False
            ok_e = good
    if not ok_e:
        # second idiom: the function returns straight from the `else` of the try around the comparator.  Decide it on the graph in which a
        # comparator call cannot complete normally: if the normal exit is still reachable there, check() can return without a match.
        cmp_nodes = [n for (n, _) in cmp_calls]

        def cut(a, b, kind, tok):
            if any(a is cn for cn in cmp_nodes) and kind == 'n':
                return False
            return True
        ok_e = not any(x is g.exit for x in graph.reachable([g.entry], efilter=cut))
        if not ok_e:
            # third idiom: the outcome travels in a local (None / the last mismatch).  Same question, with the values of simple locals followed
            # and the candidate loop known to run at least once when it ranges over 1 .. len(unmatched + [got_stdout])
            try:
                ok_e = not any(x is g.exit for x in graph.reachable_with_values([g.entry], efilter=cut, nonempty_loops=nonempty_heads))
            except RuntimeError:
                pass
    rep.ob('C02.R8', ctx.loc(f, f.node), 'normal return <=> some candidate matched', ok_e,
           'check() returns normally only after a comparison completed without exception' if ok_e else
           'check() can return normally although no candidate matched (guards of the exit: %s)' % fmt_facts(facts), anchor=CHECK)
    # (f) failure raises a got/want error
    toks = {tok for (_, k, tok) in g.raise_exit.pred if tok[0] != 'nonexc'}
    explicit = [n for n in g.nodes if n.kind == 'stmt' and isinstance(n.ast, ast.Raise) and n.ast.exc is not None]
    etoks = set()
    for n in explicit:
        etoks |= set(g._raise_tokens(n))       # the raised object (not what evaluating the operand may raise)
    ok_f = bool(etoks) and all(t[0] in ('sub', 'exact') and t[1] == 'xdoctest.checker.GotWantException' for t in etoks)
    rep.ob('C02.R8', ctx.loc(f, explicit[0].ast if explicit else f.node), 'no match -> raise a GotWantException', ok_f,
           'the explicit raise re-raises a caught got/want error' if ok_f else 'on failure check() raises %s' % sorted(etoks), anchor=CHECK)


def r11_value_kept_iff_eval_mode(ctx):
    """the value a want is compared with is the value of a part compiled in EVAL mode, and only that: at every place where the compiled code of a
    part is run, the result is stored as the part's value exactly when the guards say `compile_mode == 'eval'` (also for code that is awaited)"""
    rr = run_roles(ctx)
    rep = ctx.rep
    dom = ctx.dom(rr.g, rr.iter_entry, rr.cut)
    n_rec = 0
    for (n, c) in rr.exec_sites:
        facts = [fa for fa in graph.guard_facts(dom, n) if fa.polarity in (True, False) and isinstance(fa.expr, ast.Compare) and len(fa.expr.ops) == 1 and
                 isinstance(fa.expr.left, ast.Attribute) and fa.expr.left.attr == 'compile_mode']
        mode_eval = None
        for fa in facts:
            cmpv = fa.expr.comparators[0]
            if isinstance(fa.expr.ops[0], (ast.Eq, ast.NotEq)) and isinstance(cmpv, ast.Constant):
                is_eq = isinstance(fa.expr.ops[0], ast.Eq) == fa.polarity
                if cmpv.value == 'eval':
                    mode_eval = is_eq
                elif is_eq and mode_eval is None:
                    mode_eval = False           # a positive test for another mode
        if mode_eval is None:
            continue            # run under a condition this rule does not read as a mode: no verdict for this place
        n_rec += 1
        keeps = isinstance(n.ast, ast.Assign) and any(is_name(t, 'got_eval') for t in n.ast.targets)
        rep.ob('C02.R11', ctx.loc(rr.f, c), '%s | %s mode' % (ctx.src(n.ast, 70), 'eval' if mode_eval else 'statement'), keeps == mode_eval,
               'the value is kept for the want exactly in eval mode' if keeps == mode_eval else
               ('in eval mode the value of the expression is thrown away: a want that shows the value can never match' if mode_eval else
                'the result of running STATEMENTS is kept as the value of the part (None): a want `None` passes although nothing was evaluated, and in eval mode nothing is kept'), anchor=RUN)
    rep.floor('C02.R11', 'places where the code of a part is run under a recognised mode', n_rec, 2)


def _mini_eval(e, env):
    """value of a side-effect free expression over strings, lists and booleans (FINITE-EVAL helper); raises KeyError for anything else"""
    if isinstance(e, ast.Constant):
        return e.value
    if isinstance(e, ast.Name):
        return env[e.id]
    if isinstance(e, ast.Attribute) and isinstance(e.value, ast.Name) and (e.value.id + '.' + e.attr) in env:
        return env[e.value.id + '.' + e.attr]
    if isinstance(e, ast.UnaryOp) and isinstance(e.op, ast.Not):
        return not _mini_eval(e.operand, env)
    if isinstance(e, ast.BoolOp):
        val = None
        for x in e.values:
            val = _mini_eval(x, env)
            if isinstance(e.op, ast.And) and not val:
                return val
            if isinstance(e.op, ast.Or) and val:
                return val
        return val
    if isinstance(e, ast.Compare) and len(e.ops) == 1:
        l, r = _mini_eval(e.left, env), _mini_eval(e.comparators[0], env)
        op = type(e.ops[0])
        table = {ast.Eq: lambda: l == r, ast.NotEq: lambda: l != r, ast.In: lambda: l in r, ast.NotIn: lambda: l not in r, ast.Gt: lambda: l > r, ast.GtE: lambda: l >= r,
                 ast.Lt: lambda: l < r, ast.LtE: lambda: l <= r}
        return table[op]()
    if isinstance(e, (ast.ListComp, ast.GeneratorExp)) and len(e.generators) == 1 and isinstance(e.generators[0].target, ast.Name):
        gen = e.generators[0]
        out = []
        for item in _mini_eval(gen.iter, env):
            env2 = dict(env)
            env2[gen.target.id] = item
            if all(_mini_eval(t, env2) for t in gen.ifs):
                out.append(_mini_eval(e.elt, env2))
        return out
    if isinstance(e, ast.Call) and isinstance(e.func, ast.Name) and e.func.id in ('all', 'any', 'len', 'bool', 'list') and len(e.args) == 1 and not e.keywords:
        v = _mini_eval(e.args[0], env)
        return {'all': all, 'any': any, 'len': len, 'bool': bool, 'list': list}[e.func.id](v)
    if isinstance(e, ast.Call) and isinstance(e.func, ast.Attribute) and e.func.attr in ('strip', 'lstrip', 'rstrip', 'startswith', 'endswith') and not e.keywords:
        recv = _mini_eval(e.func.value, env)
        if isinstance(recv, str):
            return getattr(recv, e.func.attr)(*[_mini_eval(a, env) for a in e.args])
    if isinstance(e, (ast.Tuple, ast.List)):
        return [_mini_eval(x, env) for x in e.elts]
    raise KeyError(ast.unparse(e))


def r5c_code_predicate_on_samples(ctx):
    """FINITE-EVAL: `has_any_code` on sample parts.  A part whose lines are all empty or comments has no code (it is reported skipped, not passed);
    one real statement is code"""
    rep = ctx.rep
    f = ctx.func('xdoctest.doctest_part.DoctestPart.has_any_code')
    recv = f.node.args.args[0].arg
    body = [b for b in f.node.body if not (isinstance(b, ast.Expr) and isinstance(b.value, ast.Constant))]
    samples = [([''], False), (['# only a comment'], False), (['', '# c', '   # indented'], False), (['x = 1'], True), (['# c', 'x = 1'], True), (['', 'print(1)'], True), (['   '], False)]
    bad = []
    for lines, want in samples:
        env = {recv + '.exec_lines': list(lines)}
        got = None
        try:
            for st in body:
                if isinstance(st, ast.Assign) and len(st.targets) == 1 and isinstance(st.targets[0], ast.Name):
                    env[st.targets[0].id] = _mini_eval(st.value, env)
                elif isinstance(st, ast.Return) and st.value is not None:
                    got = bool(_mini_eval(st.value, env))
                    break
                else:
                    raise KeyError(ast.unparse(st)[:60])
        except (KeyError, TypeError, AttributeError) as ex:
            raise AnalysisError('C02.R5c: has_any_code is not a straight-line predicate over the lines of the part (%s)' % (ex,))
        if got is not want:
            bad.append((lines, got))
    rep.ob('C02.R5c', ctx.loc(f, f.node), 'has_any_code on 7 sample parts', not bad,
           'empty and comment lines are not code, a statement is' if not bad else
           'for the lines %r has_any_code is %r: %s' % (bad[0][0], bad[0][1], 'a part without any statement counts as code, is "run" and reported passed instead of skipped'
                                                        if bad[0][1] else 'a part with a real statement is treated as having no code and is skipped'), anchor=f.qualname)


def r9_got_want_roles(ctx):
    """got and want keep their sides at every call into the checker: same clause as C05.R12"""
    from . import c05
    c05.r12_got_want_roles(ctx, rule='C02.R9')


def r10_single_statement_modes_are_cut(ctx):
    """a want is compared with the value of the LAST statement only if that statement is compiled on its own: same clause as C01.R9"""
    from . import c01
    c01.r9_single_statement_modes_are_cut(ctx, rule='C02.R10')


def r4b_which_text_is_compared(ctx):
    """check_got_vs_want compares the want with stdout when nothing was evaluated, with repr(value) when nothing was printed, and with stdout and
    THEN -- if that failed -- with repr(value) when there is both.  Per branch: the text handed to check_output is the right one (every definition
    that reaches the argument), and the fallback comparison exists and stores its verdict"""
    rep = ctx.rep
    q = 'xdoctest.checker.check_got_vs_want'
    f = ctx.func(q)
    g = ctx.cfg(f)
    rd = ctx.rd(f)
    dom = ctx.dom(g, g.entry)
    sites = []
    for n in g.nodes:
        if n.dup:
            continue
        for c in node_calls(n):
            r = ctx.res.resolve_call(f, c)
            if r[0] == 'repo' and r[1][0].qualname == 'xdoctest.checker.check_output' and c.args:
                a0 = c.args[0]
                vals = [a0]
                if isinstance(a0, ast.Name) and a0.id != 'got_stdout':
                    vals = []
                    work = [(n, a0.id, 0)]
                    while work:
                        (nd, nm, depth) = work.pop()
                        for d in rd.at(nd, nm):
                            if isinstance(d.value, ast.Name) and d.value.id != 'got_stdout' and d.kind == 'assign' and depth < 3:
                                work.append((d.node, d.value.id, depth + 1))      # a plain copy: what the copied name holds
                            else:
                                vals.append(d.value if isinstance(d.value, ast.AST) else None)
                kinds = set()
                for v in vals:
                    if v is None:
                        kinds.add('?')
                    elif _is_repr_of(v, 'got_eval') or (isinstance(v, ast.Call) and len(v.args) == 1 and is_name(v.args[0], 'got_eval') and _repr_helper(ctx, f, v) is not None):
                        kinds.add('repr')
                    elif is_name(v, 'got_stdout'):
                        kinds.add('stdout')
                    else:
                        kinds.add('?')
                facts = [fa for fa in graph.guard_facts(dom, n) if fa.polarity in (True, False) and isinstance(fa.expr, ast.AST)]
                noeval = next((fa.polarity for fa in facts if isinstance(fa.expr, ast.Compare) and 'NOT_EVALED' in fa.text and isinstance(fa.expr.ops[0], ast.Is)), None)
                printed = next((fa.polarity for fa in facts if is_name(fa.expr, 'got_stdout')), None)
                if printed is None:
                    mod = [fa for fa in facts if isinstance(fa.expr, ast.Call) and isinstance(fa.expr.func, ast.Attribute) and is_name(fa.expr.func.value, 'got_stdout')
                           and fa.expr.func.attr in ('strip', 'rstrip', 'lstrip', 'split')]
                    if mod:
                        rep.ob('C02.R4b', ctx.loc(f, mod[0].expr), '"nothing was printed" is decided on %s' % ctx.src(mod[0].expr), False,
                               'whether anything was printed is decided on a stripped copy of the output: an example that prints only blank lines (`print()`) is treated as silent, and its want '
                               '(`<BLANKLINE>`) is compared with repr(value) -- `None` -- instead of the output', anchor=q)
                        return
                allfacts = list(facts) + [fa for fa in graph.short_circuit_facts(n.ast, c)]
                stored = isinstance(n.ast, (ast.Assign, ast.Return)) or n.kind == 'test'
                sites.append((n, c, kinds, allfacts, stored))
    rep.floor('C02.R4b', 'comparisons in check_got_vs_want', len(sites), 2)

    class _Unknown(Exception):
        pass

    def is_cmp_call(e):
        if not isinstance(e, ast.Call):
            return False
        r = ctx.res.resolve_call(f, e)
        return r[0] == 'repo' and r[1][0].qualname == 'xdoctest.checker.check_output'

    def truth(e, node, env, depth=0):
        """value of a condition in the situation env = (evaluated, printed, first comparison matched)"""
        if isinstance(e, ast.UnaryOp) and isinstance(e.op, ast.Not):
            return not truth(e.operand, node, env, depth)
        if isinstance(e, ast.BoolOp):
            vs = [truth(v, node, env, depth) for v in e.values]
            return all(vs) if isinstance(e.op, ast.And) else any(vs)
        if isinstance(e, ast.Compare) and len(e.ops) == 1 and 'NOT_EVALED' in ast.unparse(e) and isinstance(e.ops[0], (ast.Is, ast.IsNot)) and \
                (is_name(e.left, 'got_eval') or is_name(e.comparators[0], 'got_eval')):
            return env[0] != isinstance(e.ops[0], ast.Is)
        if is_name(e, 'got_stdout'):
            return env[1]
        if isinstance(e, ast.Call) and is_name(e.func, 'bool') and len(e.args) == 1 and not e.keywords:
            return truth(e.args[0], node, env, depth)
        if is_cmp_call(e):
            return env[2]
        if isinstance(e, ast.Name) and depth < 4:
            ds = rd.at(node, e.id) if node is not None else []
            vals = {id(d.value): d for d in ds if isinstance(d.value, ast.AST)}
            if ds and len(vals) == len(ds):
                if all(is_cmp_call(d.value) for d in ds):
                    return env[2]
                if len(ds) == 1:
                    return truth(ds[0].value, ds[0].node, env, depth + 1)
        raise _Unknown(ast.unparse(e))
    SITUATIONS = [((False, False, True), 'nothing evaluated', {'stdout'}), ((False, True, True), 'nothing evaluated', {'stdout'}),
                  ((True, False, True), 'evaluated, nothing printed', {'repr'}), ((True, False, False), 'evaluated, nothing printed', {'repr'}),
                  ((True, True, True), 'evaluated and printed', {'stdout'}), ((True, True, False), 'evaluated and printed, stdout did not match', {'stdout', 'repr'})]
    have = set()
    for (n, c, kinds, allfacts, stored) in sites:
        need('?' not in kinds, 'C02.R4b: where the text compared by %s comes from was not recognised' % ctx.src(c))
    site_ids = {id(n) for (n, _c, _k, _f, _s) in sites}

    def walk(env, n_=None, seen_=None):
        """the comparison sites one execution visits in the situation env: every test on the way is decided by the situation (early exits
        included); a test the situation does not decide may go either way as long as that makes no difference to the comparisons reached"""
        n_ = g.entry if n_ is None else n_
        seen_ = set() if seen_ is None else set(seen_)
        got_ = set()
        while n_ is not None and id(n_) not in seen_:
            seen_.add(id(n_))
            if id(n_) in site_ids:
                got_.add(id(n_))
            if n_.kind == 'stmt' and isinstance(n_.ast, (ast.Return, ast.Raise)):
                break
            if n_.kind == 'test':
                branches = [b for b in n_.nsucc() if b.kind == 'branch']
                try:
                    t_ = truth(n_.ast, n_, env)
                except _Unknown:
                    alts = [frozenset(walk(env, b, seen_)) for b in branches]
                    if len(set(alts)) > 1:
                        raise
                    return got_ | (set(alts[0]) if alts else set())
                nxt = [b for b in branches if b.attrs.get('polarity') is t_]
                need(len(nxt) == 1, 'C02.R4b: branch of `%s` not found in the flow graph' % ctx.src(n_.ast))
                n_ = nxt[0]
                continue
            nxt = n_.nsucc()
            if not nxt:
                break
            need(len(nxt) == 1, 'C02.R4b: the flow of check_got_vs_want forks at `%s` without a test this evaluation can decide' % (ctx.src(n_.ast) if isinstance(getattr(n_, 'ast', None), ast.AST) else n_.kind))
            n_ = nxt[0]
        return got_
    for (env, branch, want_kinds) in SITUATIONS:
        try:
            visited = walk(env)
        except _Unknown as ex:
            raise AnalysisError('C02.R4b: a condition of check_got_vs_want was not recognised (%s)' % ex)
        reached = []
        for (n, c, kinds, allfacts, stored) in sites:
            try:
                on = id(n) in visited and all(truth(fa.expr, n, env) == fa.polarity for fa in graph.short_circuit_facts(n.ast, c))
            except _Unknown as ex:
                raise AnalysisError('C02.R4b: the branch of %s was not recognised (%s)' % (ctx.src(c), ex))
            if on:
                reached.append((n, c, kinds, stored))
        got_kinds = set()
        for (_n, _c, kinds, _s) in reached:
            got_kinds |= kinds
        # when the first comparison matched, a second one (the value fallback) must not be needed: it may run only after a failed first one
        ok = got_kinds == want_kinds and all(st for (_n, _c, _k, st) in reached)
        if reached:
            have.add(branch)
        site = reached[0] if reached else None
        rep.ob('C02.R4b', ctx.loc(f, site[1]) if site else ctx.loc(f, f.node), '%s | %s' % (' ; '.join(ctx.src(c_, 50) for (_n, c_, _k, _s) in reached) or 'no comparison', branch), ok,
               'compares the %s text and keeps the verdict' % '/'.join(sorted(want_kinds)) if ok else
               ('in the situation "%s" the compared text is %s instead of %s: %s' % (branch, sorted(got_kinds), sorted(want_kinds),
                'the value fallback never sees repr(value), so an example that prints and returns fails although its want is the value' if 'repr' in want_kinds - got_kinds else 'the wrong side is compared')
                if got_kinds != want_kinds else 'the verdict of this comparison is not stored'), anchor=q)
    missing = {'nothing evaluated', 'evaluated, nothing printed', 'evaluated and printed', 'evaluated and printed, stdout did not match'} - have
    rep.ob('C02.R4b', ctx.loc(f, f.node), 'a comparison in each of the four situations', not missing,
           'stdout / repr / stdout then repr' if not missing else 'no comparison is made when: %s' % sorted(missing), anchor=q)


# ---------------------------------------------------------------------------
from ..selftest import fire, silent      # noqa: E402

DE = 'xdoctest/doctest_example.py'
CK = 'xdoctest/checker.py'
VARIANTS = [
    fire('empty-line-counts-as-code', 'C02.R5c', ('xdoctest/doctest_part.py', "            not line or line.startswith('#')\n", "            line.startswith('#')\n")),
    fire('awaited-value-kept-in-the-wrong-mode', 'C02.R11', (DE, "                                if part.compile_mode == 'eval':\n                                    got_eval = asyncio.run(eval(code, test_globals))\n", "                                if part.compile_mode == 'exec':\n                                    got_eval = asyncio.run(eval(code, test_globals))\n")),
    fire('blank-output-counts-as-no-output', 'C02.R4b', ('xdoctest/checker.py', "        if not got_stdout:\n", "        if not got_stdout.strip():\n")),
    fire('value-fallback-compares-stdout-again', 'C02.R4b', ('xdoctest/checker.py', "                try:\n                    got = repr(got_eval)\n                except Exception as ex:", "                try:\n                    pass\n                except Exception as ex:")),
    fire('value-fallback-not-compared', 'C02.R4b', ('xdoctest/checker.py', "                flag = check_output(got, want, runstate)\n                if not flag:\n                    got = got_stdout\n", "                if not flag:\n                    got = got_stdout\n")),
    fire('comment-test-on-raw-lines', 'C02.R5b', ('xdoctest/doctest_part.py', "            for line in slines\n", "            for line in self.exec_lines\n")),
    silent('comment-test-strips-in-place', ('xdoctest/doctest_part.py', "            not line or line.startswith('#')\n            for line in slines\n", "            not line.strip() or line.strip().startswith('#')\n            for line in self.exec_lines\n")),
    fire('skipped-flag-from-anything-ran', 'C02.R6', (DE, "        skipped = len(self._skipped_parts) == len(self._parts)\n", "        skipped = not self.anything_ran()\n")),
    fire('M28-continue-after-gotwant', 'C02.R1',
         (DE, "                    self.exc_info = sys.exc_info()\n                    if on_error == 'raise':\n                        raise\n                    break\n                except checker.ExtractGotReprException",
              "                    self.exc_info = sys.exc_info()\n                    if on_error == 'raise':\n                        raise\n                    continue\n                except checker.ExtractGotReprException")),
    fire('M28-pass-after-gotwant', 'C02.R1',
         (DE, "                    self.exc_info = sys.exc_info()\n                    if on_error == 'raise':\n                        raise\n                    break\n                except checker.ExtractGotReprException",
              "                    self.exc_info = sys.exc_info()\n                    if on_error == 'raise':\n                        raise\n                    pass\n                except checker.ExtractGotReprException")),
    fire('E16-keep-only-last-unmatched', 'C02.R3',
         (DE, "self._unmatched_stdout.append(cap.text)", "self._unmatched_stdout = [cap.text]")),
    fire('clear-unmatched-on-every-part', 'C02.R3',
         (DE, "                            self._unmatched_stdout.append(cap.text)\n",
              "                            self._unmatched_stdout.append(cap.text)\n                            self._unmatched_stdout = []\n")),
    fire('never-clear-unmatched', 'C02.R3',
         (DE, "                            # Clear unmatched output when a check passes\n                            self._unmatched_stdout = []\n",
              "                            # Clear unmatched output when a check passes\n                            pass\n")),
    fire('clear-before-check', 'C02.R3',
         (DE, "                            got_stdout = cap.text\n", "                            got_stdout = cap.text\n                            self._unmatched_stdout = []\n")),
    fire('unmatched-gets-wrong-text', 'C02.R3',
         (DE, "self._unmatched_stdout.append(cap.text)", "self._unmatched_stdout.append(part.source)")),
    fire('K4-str-instead-of-repr', 'C02.R4',
         (CK, "                got = repr(got_eval)\n            except Exception as ex:", "                got = str(got_eval)\n            except Exception as ex:")),
    fire('K4-format-instead-of-repr', 'C02.R4',
         (CK, "                    got = repr(got_eval)\n", "                    got = '{}'.format(got_eval)\n")),
    fire('none-value-never-falls-back', 'C02.R4', (CK, "            if not flag:\n                # allow eval to fallback and save us", "            if not flag and got_eval is not None:\n                # allow eval to fallback and save us")),
    fire('E2-drop-has-any-code', 'C02.R5',
         (DE, "                if not part.has_any_code():\n", "                if False:\n")),
    fire('E2-no-skip-record', 'C02.R5',
         (DE, "                        print(f'part[{partx}] No code, skipping')\n                    self._skipped_parts.append(part)\n",
              "                        print(f'part[{partx}] No code, skipping')\n")),
    fire('check-without-want', 'C02.R2',
         (DE, "                        if part.want:\n                            got_stdout = cap.text\n", "                        if True:\n                            got_stdout = cap.text\n")),
    fire('passed-ignores-skipped', 'C02.R6',
         (DE, "        passed = not failed and not skipped\n", "        passed = not failed\n")),
    fire('failed-flag-inverted', 'C02.R6',
         (DE, "        failed = self.exc_info is not None\n", "        failed = self.exc_info is None\n")),
    fire('got-eval-initialised-once', 'C02.R7',
         (DE, "        did_pre_import = False\n", "        did_pre_import = False\n        got_eval = constants.NOT_EVALED\n"),
         (DE, "                got_eval = constants.NOT_EVALED\n", "                pass\n")),
    fire('only-current-output-tried', 'C02.R8', ('xdoctest/doctest_part.py', "        for i in range(1, len(trailing_gots) + 1):\n", "        for i in range(1, 2):\n")),
    fire('longest-sequence-not-tried', 'C02.R8', ('xdoctest/doctest_part.py', "        for i in range(1, len(trailing_gots) + 1):\n", "        for i in range(1, len(trailing_gots)):\n")),
    fire('leading-sequence-instead-of-trailing', 'C02.R8', ('xdoctest/doctest_part.py', "            got_ = ''.join(trailing_gots[-i:])\n", "            got_ = ''.join(trailing_gots[:i])\n")),
    fire('outputs-in-wrong-order', 'C02.R8', ('xdoctest/doctest_part.py', "        trailing_gots = unmatched + [got_stdout]\n", "        trailing_gots = [got_stdout] + unmatched\n")),
    fire('mismatch-returns-normally', 'C02.R8', ('xdoctest/doctest_part.py', "        if not success:\n", "        if not success and exceptions and False:\n")),
    fire('success-set-in-handler', 'C02.R8', ('xdoctest/doctest_part.py', "                exceptions.append(ex)\n", "                exceptions.append(ex)\n                success = len(exceptions) > 3\n")),
    silent('append-as-augassign',
           (DE, "self._unmatched_stdout.append(cap.text)", "self._unmatched_stdout += [cap.text]")),
    silent('flags-rephrased',
           (DE, "        passed = not failed and not skipped\n", "        passed = not (failed or skipped)\n")),
    silent('flags-inline',
           (DE, "            'passed': passed,\n", "            'passed': not failed and not skipped,\n")),
    silent('rename-local',
           (DE, "got_stdout", "captured_now", 0)),
    silent('reset-by-clear',
           (DE, "                            # Clear unmatched output when a check passes\n                            self._unmatched_stdout = []\n",
                "                            # Clear unmatched output when a check passes\n                            self._unmatched_stdout.clear()\n")),
    silent('want-via-not-none',
           (DE, "                        if part.want:\n                            got_stdout = cap.text\n", "                        if not (not part.want):\n                            got_stdout = cap.text\n")),
]
