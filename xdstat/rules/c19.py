"""
C19 -- the dump command (narrow structural claim).

Whether the emitted text is valid Python for every doctest shape is a
value-level statement and is not decided.  Decided: the emission discipline of
runner._convert_to_test_module.
"""
import ast

from ..context import need
from ..loader import AnalysisError
from .. import graph
from ..roles import node_calls, RUN
from ..resolve import walk_scope
from .common import fmt_facts, is_name, const_str, is_attr_of

EXPLANATION = (
    'Narrow static rule conformance on runner._convert_to_test_module and its caller. R1 one function per doctest: every normal path through one '
    'iteration of the loop over the enabled examples appends exactly one text to the module, that text is a `def <name>():` header followed by the '
    'body passed through utils.indent, and the module text is the in-order join of those texts; the dump branch of doctest_module hands over the '
    'gathered list itself. R2 identity: the function name depends on every component of the doctest identifier (callname and per-docstring index), so '
    'two doctests of one callable cannot shadow each other. R3 one body entry per part, in part order, taken from format_part with prompts, wants, '
    'line numbers, colours and part numbers all switched off (anything else would put non-code into the function body). R4 the only executable lines '
    'dropped are star imports, every other line is kept once and in order. R5 wants are preserved as comments: the want text is added only under '
    '`part.want`, through utils.indent with a prefix that starts with "#", after the source of its part. R6 utils.indent prefixes the first line and every '
    'line after a newline with the same prefix. That the result parses for every doctest shape (multi-line strings re-indented by indent) is not decided.'
    " R7 format_part(prefix=False) reads the executable lines on every path (writer/reader agreement with the dump's star-import removal). R8 the converted module is emitted at level 0. R9 the dump splits global_exec at the separator the run path replaces. R10 = C10.R5 (which doctests are converted).")
DECIDES = ['PATH-COUNT one function per example / one body entry per part', 'identity components of the function name', 'constant formatting options', 'drop guard of executable lines', 'want comment flow']
NOT_DECIDED = ['syntactic validity of the generated text for every doctest shape', 'undefined-name import line', 'global-exec header']

CONV = 'xdoctest.runner._convert_to_test_module'
DM = 'xdoctest.runner.doctest_module'
INDENT = 'xdoctest.utils.util_str.indent'
UNIQ = 'xdoctest.doctest_example.DocTest.unique_callname'


def run(ctx):
    for fn in (r1_one_function_per_example, r2_identity, r3_one_entry_per_part, r4_dropped_lines, r5_want_comments, r6_indent, r7_prefix_free_text_is_exec_lines, r8_dump_text_always_emitted, r9_global_exec_separator_agrees, r10_dump_converts_the_enabled_doctests, r11_definite_assignment, r2b_name_is_an_identifier):
        ctx.rep.rule(fn, ctx)


def _callee(c):
    f = c.func
    if isinstance(f, ast.Name):
        return f.id
    if isinstance(f, ast.Attribute):
        return f.attr
    return None


def _loops(ctx, f):
    g = ctx.cfg(f)
    outer = [n for n in g.nodes if n.kind == 'for' and not n.dup and not any(fr.kind == 'loop' for fr in n.frames)]
    need(len(outer) == 1, 'C19: the loop over the enabled examples was not recognised')
    ex_loop = outer[0]
    need(isinstance(ex_loop.ast.target, ast.Name), 'C19: example loop target is not a name')
    ex = ex_loop.ast.target.id
    parts = [n for n in g.nodes if n.kind == 'for' and not n.dup and is_attr_of(n.ast.iter, ex, '_parts')]
    need(len(parts) == 1, 'C19: the loop over the parts of an example was not recognised')
    return g, ex_loop, ex, parts[0]


def _appends_to(g, name, within=None):
    out = []
    for n in g.nodes:
        if n.dup or (within is not None and not graph.in_loop_body(n, within)):
            continue
        if n.kind == 'stmt':
            for c in node_calls(n):
                if _callee(c) in ('append', 'extend', 'insert') and isinstance(c.func, ast.Attribute) and is_name(c.func.value, name):
                    out.append((n, c))
            if isinstance(n.ast, ast.AugAssign) and is_name(n.ast.target, name):
                out.append((n, n.ast))
    return out


def _single_value(rd, node, expr, depth=5):
    """follow a local name through its unique plain reaching definition"""
    while isinstance(expr, ast.Name) and depth > 0:
        ds = rd.at(node, expr.id)
        if len(ds) != 1 or ds[0].kind != 'assign' or not isinstance(ds[0].value, ast.AST):
            return expr, node
        node, expr = ds[0].node, ds[0].value
        depth -= 1
    return expr, node


def r1_one_function_per_example(ctx):
    rep = ctx.rep
    f = ctx.func(CONV)
    g, ex_loop, ex, part_loop = _loops(ctx, f)
    rd = ctx.rd(f)
    # the accumulated module list: the one joined into the returned text
    rets = [n for n in g.nodes if n.kind == 'stmt' and isinstance(n.ast, ast.Return) and not n.dup]
    need(len(rets) == 1, 'C19.R1: more than one return in the converter')
    v, vn = _single_value(rd, rets[0], rets[0].ast.value)
    ok_join = isinstance(v, ast.Call) and isinstance(v.func, ast.Attribute) and v.func.attr == 'join' and const_str(v.func.value) is not None and \
        const_str(v.func.value).strip() == '' and '\n' in const_str(v.func.value) and len(v.args) == 1 and isinstance(v.args[0], ast.Name)
    rep.ob('C19.R1', ctx.loc(f, rets[0].ast), ctx.src(v, 80), ok_join, 'the module text is the in-order join of the per-example texts, separated by blank lines' if ok_join else
           'the returned text is not a newline join of the list of function texts', anchor=CONV)
    if not ok_join:
        return
    acc = v.args[0].id
    bi, cut = graph.region_of_loop(g, ex_loop)
    apps = _appends_to(g, acc, within=ex_loop.ast)
    app_nodes = [n for (n, _) in apps]
    res = graph.count_events(bi, lambda n: n in app_nodes, lambda n: n is ex_loop, efilter=graph.normal_only, avoid=[])
    # count_events cuts back edges: the loop head reached again is the end of one iteration
    ends = [r for r in res.values()]
    need(ends, 'C19.R1: no normal path through one iteration')
    lo = min(r[1] for r in ends)
    hi = max(r[2] for r in ends)
    rep.ob('C19.R1', ctx.loc(f, ex_loop.ast), 'one text appended per enabled example', lo == 1 and hi == 1,
           'exactly one append to %s on every normal path through an iteration' % acc if (lo, hi) == (1, 1) else
           'between %d and %d function texts are emitted for one doctest (a doctest is dropped or duplicated)' % (lo, hi),
           witness=graph.fmt_path(ends[0][3] if lo != 1 else ends[0][4], f.module.relpath) if (lo, hi) != (1, 1) else None, anchor=CONV)
    others = [(n, c) for (n, c) in _appends_to(g, acc) if not graph.in_loop_body(n, ex_loop.ast)]
    rep.ob('C19.R1', ctx.loc(f, f.node), 'nothing else is appended to the module', not others, '%d append(s) outside the loop' % len(others), nontrivial=False, anchor=CONV)
    # shape of the appended text: 'def {}():\n'.format(name) + utils.indent(body)
    for (n, c) in apps:
        arg = c.args[-1] if isinstance(c, ast.Call) and c.args else None
        t, tn = _single_value(rd, n, arg) if arg is not None else (None, n)
        ok = False
        why = 'the appended text is not `def <name>():` + indented body'
        if isinstance(t, ast.Call) and not (isinstance(t.func, ast.Attribute) and t.func.attr in ('format', 'join')):
            # built somewhere this rule does not look: not a verdict
            raise AnalysisError('C19.R1: the text of a generated function is built by %s, which this rule does not see through' % ctx.src(t, 60))
        if isinstance(t, ast.BinOp) and isinstance(t.op, ast.Add):
            hdr, body = t.left, t.right
            h_ok = isinstance(hdr, ast.Call) and isinstance(hdr.func, ast.Attribute) and hdr.func.attr == 'format' and const_str(hdr.func.value) is not None and \
                const_str(hdr.func.value).startswith('def {}(') and const_str(hdr.func.value).endswith(':\n') and len(hdr.args) == 1
            r = ctx.res.resolve_call(f, body) if isinstance(body, ast.Call) else (None,)
            b_ok = isinstance(body, ast.Call) and r[0] == 'repo' and r[1][0].qualname == INDENT and len(body.args) == 1 and not body.keywords
            ok = h_ok and b_ok
            if h_ok and not b_ok:
                why = 'the body of the generated function is not passed through utils.indent with the default prefix: it would not be a function body'
        rep.ob('C19.R1', ctx.loc(f, c), ctx.src(t if t is not None else c, 100), ok, 'a def header followed by the indented body' if ok else why, anchor=CONV)
    # the caller hands over the gathered list
    fd = ctx.func(DM)
    gd = ctx.cfg(fd)
    domd = ctx.dom(gd, gd.entry)
    calls = [(n, c) for n in gd.nodes if not n.dup for c in node_calls(n) if _callee(c) == '_convert_to_test_module']
    rep.floor('C19.R1', 'calls of the converter', len(calls), 1)
    for (n, c) in calls:
        facts = graph.guard_facts(domd, n)
        okc = any(fa.polarity is True and isinstance(fa.expr, ast.Compare) and is_name(fa.expr.left, 'command') and const_str(fa.expr.comparators[0]) == 'dump' for fa in facts)
        oka = len(c.args) == 1 and is_name(c.args[0], 'enabled_examples')
        rep.ob('C19.R1', ctx.loc(fd, c), ctx.src(c), okc and oka, 'the dump command converts exactly the gathered examples' if okc and oka else
               'the converter does not receive the gathered list under command == "dump" (guards %s)' % fmt_facts(facts), anchor=DM)


def _attr_reads(expr, base):
    return {n.attr for n in ast.walk(expr) if isinstance(n, ast.Attribute) and is_name(n.value, base)}


def r2_identity(ctx):
    rep = ctx.rep
    f = ctx.func(CONV)
    g, ex_loop, ex, part_loop = _loops(ctx, f)
    rd = ctx.rd(f)
    # identity components: attributes of self read by DocTest.unique_callname
    fu = ctx.func(UNIQ)
    recv = fu.node.args.args[0].arg
    comps = set()
    for n in ast.walk(fu.node):
        if isinstance(n, ast.Return) and n.value is not None:
            comps |= _attr_reads(n.value, recv)
    need(comps, 'C19.R2: identity components of unique_callname not recognised')
    # the name expression of the def header
    names = []
    for n in g.nodes:
        if n.dup or n.kind != 'stmt':
            continue
        for c in ast.walk(n.ast):
            if isinstance(c, ast.Call) and isinstance(c.func, ast.Attribute) and c.func.attr == 'format' and const_str(c.func.value) is not None and \
                    const_str(c.func.value).startswith('def {}(') and len(c.args) == 1:
                names.append((n, c.args[0]))
    rep.floor('C19.R2', 'def headers', len(names), 1)
    def closure(node, x, seen):
        reads = set(_attr_reads(x, ex))
        # a helper that is handed the example: what it reads from its parameter counts (inlining bound 1)
        for c in [y for y in ast.walk(x) if isinstance(y, ast.Call)]:
            r = ctx.res.resolve_call(f, c)
            if r[0] == 'repo' and len(r[1]) == 1:
                h = r[1][0]
                hp = [a.arg for a in h.node.args.args]
                for i, a in enumerate(c.args):
                    if is_name(a, ex) and i < len(hp):
                        reads |= _attr_reads(h.node, hp[i])
        for nm in [y for y in ast.walk(x) if isinstance(y, ast.Name) and isinstance(y.ctx, ast.Load) and y.id != ex]:
            for d in rd.at(node, nm.id):
                if id(d) in seen:
                    continue
                seen.add(id(d))
                v = d.value.value if isinstance(d.value, ast.AugAssign) else d.value
                if isinstance(v, ast.AST):
                    reads |= closure(d.node, v, seen)
                if d.kind == 'aug':
                    # x += ... keeps what x held before
                    for d0 in rd.at(d.node, nm.id):
                        if id(d0) not in seen and isinstance(d0.value, ast.AST):
                            seen.add(id(d0))
                            reads |= closure(d0.node, d0.value.value if isinstance(d0.value, ast.AugAssign) else d0.value, seen)
        return reads
    for (n, e) in names:
        # one verdict per definition that can reach the header: a component added on some paths only does not make the name unique
        variants = []
        if isinstance(e, ast.Name):
            for d in rd.at(n, e.id):
                v = d.value.value if isinstance(d.value, ast.AugAssign) else d.value
                if not isinstance(v, ast.AST):
                    continue
                r = closure(d.node, v, {id(d)})
                if d.kind == 'aug':
                    for d0 in rd.at(d.node, e.id):
                        if isinstance(d0.value, ast.AST):
                            r |= closure(d0.node, d0.value.value if isinstance(d0.value, ast.AugAssign) else d0.value, {id(d), id(d0)})
                variants.append((d, r))
        else:
            variants.append((None, closure(n, e, set())))
        need(variants, 'C19.R2: the name expression of the def header has no definition')
        for (d, reads) in variants:
            uses_unique = 'unique_callname' in reads
            missing = sorted(comps - reads) if not uses_unique else []
            rep.ob('C19.R2', ctx.loc(f, d.node.ast if d is not None and hasattr(d.node, 'ast') and d.node.ast is not None else e), 'function name <- %s' % sorted(reads), not missing,
                   'the name depends on every component of the doctest identifier %s' % sorted(comps) if not missing else
                   'the generated function name can reach the header without %s (on some path): two doctests (callname:0 / callname:1, or `f:1` and `f_1:0`) get the same `def`, the later one shadows the earlier' % missing, anchor=CONV)


def r3_one_entry_per_part(ctx):
    rep = ctx.rep
    f = ctx.func(CONV)
    g, ex_loop, ex, part_loop = _loops(ctx, f)
    rd = ctx.rd(f)
    need(isinstance(part_loop.ast.target, ast.Name), 'C19.R3: part loop target is not a name')
    part = part_loop.ast.target.id
    fmts = [(n, c) for n in g.nodes if not n.dup and graph.in_loop_body(n, part_loop.ast) for c in node_calls(n) if _callee(c) == 'format_part' and is_name(c.func.value, part)]
    rep.floor('C19.R3', 'format_part calls in the part loop', len(fmts), 1)
    required = {'linenos': False, 'want': False, 'prefix': False, 'colored': False, 'partnos': False}
    ffp = ctx.func('xdoctest.doctest_part.DoctestPart.format_part')
    defaults = {}
    a = ffp.node.args
    pos = a.args[1:]
    for arg, d in zip(pos[len(pos) - len(a.defaults):], a.defaults):
        if isinstance(d, ast.Constant):
            defaults[arg.arg] = d.value
    for (n, c) in fmts:
        given = dict(defaults)
        for i, x in enumerate(c.args):
            if i < len(pos):
                given[pos[i].arg] = x.value if isinstance(x, ast.Constant) else ('?', ast.unparse(x))
        for k in c.keywords:
            given[k.arg] = k.value.value if isinstance(k.value, ast.Constant) else ('?', ast.unparse(k.value))
        bad = {k: given.get(k) for k, v in required.items() if given.get(k) is not v}
        rep.ob('C19.R3', ctx.loc(f, c), ctx.src(c, 140), not bad, 'prompts, wants, line numbers, colours and part numbers are all off: only executable source reaches the function body' if not bad else
               'the body of the generated function contains non-code: option(s) %s' % bad, anchor=CONV)
    # one append per part
    body_lists = set()
    for (n, c) in fmts:
        if isinstance(n.ast, ast.Assign) and isinstance(n.ast.targets[0], ast.Name):
            bps = {n.ast.targets[0].id}
            # plain copies of the formatted text (a helper's result handed on)
            grew = True
            while grew:
                grew = False
                for m in g.nodes:
                    if not m.dup and graph.in_loop_body(m, part_loop.ast) and isinstance(m.ast, ast.Assign) and len(m.ast.targets) == 1 and isinstance(m.ast.targets[0], ast.Name) \
                            and isinstance(m.ast.value, ast.Name) and m.ast.value.id in bps and m.ast.targets[0].id not in bps:
                        bps.add(m.ast.targets[0].id)
                        grew = True
            for m in g.nodes:
                if m.dup or not graph.in_loop_body(m, part_loop.ast):
                    continue
                for cc in node_calls(m):
                    if _callee(cc) == 'append' and cc.args and isinstance(cc.args[0], ast.Name) and cc.args[0].id in bps and isinstance(cc.func.value, ast.Name):
                        body_lists.add(cc.func.value.id)
    need(len(body_lists) == 1, 'C19.R3: the list collecting the per-part texts was not recognised')
    bl = next(iter(body_lists))
    apps = _appends_to(g, bl, within=part_loop.ast)
    app_nodes = [n for (n, _) in apps]
    bi, cut = graph.region_of_loop(g, part_loop)
    res = graph.count_events(bi, lambda n: n in app_nodes, lambda n: n is part_loop, efilter=graph.normal_only)
    ends = list(res.values())
    need(ends, 'C19.R3: no normal path through one part iteration')
    lo = min(r[1] for r in ends)
    hi = max(r[2] for r in ends)
    rep.ob('C19.R3', ctx.loc(f, part_loop.ast), 'one body entry per part, in part order', (lo, hi) == (1, 1),
           'exactly one append to %s per part' % bl if (lo, hi) == (1, 1) else 'between %d and %d entries per part: statements are lost or duplicated in the conversion' % (lo, hi), anchor=CONV)
    for (n, c) in apps:
        ok = isinstance(c, ast.Call) and _callee(c) == 'append'
        rep.ob('C19.R3', ctx.loc(f, c), ctx.src(c), ok, 'appended at the end (source order kept)' if ok else 'entries are not appended in order', nontrivial=False, anchor=CONV)
    # the function body = docstring + header + body entries, in that order
    # ... wherever it is written: bound to a local or handed on directly
    bodies = []
    for n_ in g.nodes:
        if n_.dup or n_.kind not in ('stmt', 'test'):
            continue
        for c_ in node_calls(n_):
            if isinstance(c_.func, ast.Attribute) and c_.func.attr == 'join' and const_str(c_.func.value) == '\n' and len(c_.args) == 1 and \
                    isinstance(c_.args[0], ast.BinOp) and isinstance(c_.args[0].op, ast.Add):
                bodies.append((n_, c_))
    bodies += [(d.node, d.value) for d in rd.defs_of('body') if d.kind == 'assign' and isinstance(d.value, ast.Call) and not any(d.value is c_ for (_n, c_) in bodies)]
    rep.floor('C19.R3', 'assemblies of the function body', len(bodies), 1)

    def is_docstring_list(node_, name):
        ds = rd.at(node_, name)
        return bool(ds) and all(isinstance(d_.value, ast.List) and d_.value.elts and const_str(d_.value.elts[0]) == '"""' for d_ in ds)

    def same_list(node_, name, other):
        if name == other:
            return True
        ds = rd.at(node_, name)
        return bool(ds) and all(d_.kind == 'assign' and is_name(d_.value, other) for d_ in ds) or \
            (bool(rd.at(node_, other)) and all(d_.kind == 'assign' and is_name(d_.value, name) for d_ in rd.at(node_, other)))
    for (dn, v) in bodies:
        ok = isinstance(v.func, ast.Attribute) and v.func.attr == 'join' and const_str(v.func.value) == '\n' and len(v.args) == 1
        order = []
        if ok:
            x = v.args[0]
            while isinstance(x, ast.BinOp) and isinstance(x.op, ast.Add):
                order.insert(0, ast.unparse(x.right))
                x = x.left
            order.insert(0, ast.unparse(x))
        ok = ok and order and (order[-1] == bl or (order[-1].isidentifier() and same_list(dn, order[-1], bl))) and \
            (order[0] == 'docstr_lines' or (order[0].isidentifier() and is_docstring_list(dn, order[0])))
        rep.ob('C19.R3', ctx.loc(f, v), ctx.src(v, 100), ok, 'docstring first, part texts last, one per line group' if ok else 'the body is not assembled as docstring + header + part texts', anchor=CONV)


def r4_dropped_lines(ctx):
    rep = ctx.rep
    f = ctx.func(CONV)
    g, ex_loop, ex, part_loop = _loops(ctx, f)
    rd = ctx.rd(f)
    part = part_loop.ast.target.id
    line_loops = [n for n in g.nodes if n.kind == 'for' and not n.dup and is_attr_of(n.ast.iter, part, 'exec_lines')]
    if not line_loops:
        rep.ob('C19.R4', ctx.loc(f, part_loop.ast), 'no executable line is filtered', True, 'exec_lines are not rewritten', nontrivial=False, anchor=CONV)
        return
    need(len(line_loops) == 1, 'C19.R4: more than one loop over exec_lines')
    ll = line_loops[0]
    line = ll.ast.target.id
    bi, cut = graph.region_of_loop(g, ll)
    dom = ctx.dom(g, bi, cut=cut)
    keeps = [(n, c) for n in g.nodes if not n.dup and graph.in_loop_body(n, ll.ast) for c in node_calls(n) if _callee(c) == 'append' and c.args and is_name(c.args[0], line)]
    # removing from the very list that is being iterated skips the element that follows each removed one
    inplace = [(n, c) for n in g.nodes if not n.dup and graph.in_loop_body(n, ll.ast) for c in node_calls(n)
               if _callee(c) in ('remove', 'pop', 'insert', 'clear') and isinstance(c.func, ast.Attribute) and is_attr_of(c.func.value, part, 'exec_lines')]
    inplace += [(n, n.ast) for n in g.nodes if not n.dup and graph.in_loop_body(n, ll.ast) and n.kind == 'stmt' and isinstance(n.ast, ast.Delete) and
                any(isinstance(t, ast.Subscript) and is_attr_of(t.value, part, 'exec_lines') for t in n.ast.targets)]
    for (n, c) in inplace:
        rep.ob('C19.R4', ctx.loc(f, c), ctx.src(c), False,
               'the loop iterates %s.exec_lines itself and changes its length inside the body: the line that follows a removed line is never examined, so the second of two '
               'consecutive star imports survives into the function body' % part, anchor=CONV)
    # leaving the filter loop early drops every line that follows: only `continue` may skip a line
    for n in g.nodes:
        if not n.dup and n.kind == 'stmt' and isinstance(n.ast, ast.Break) and graph.in_loop_body(n, ll.ast) and \
                not any(fr.kind == 'loop' and fr.head is not ll and graph.in_loop_body(fr.head, ll.ast) for fr in n.frames):
            rep.ob('C19.R4', ctx.loc(f, n.ast), 'break inside the line filter', False,
                   'the loop over the executable lines is left at the first filtered line: every source line after a star import is missing from the dumped function', anchor=CONV)
    if inplace and not keeps:
        return
    rep.floor('C19.R4', 'keep sites in the line filter', len(keeps), 1)
    # the filtered list replaces the part's lines AFTER the loop, whatever the loop kept: a store inside the loop body is never executed for a
    # part all of whose lines are dropped, and that part keeps its star imports
    kept_lists = {c.func.value.id for (_n, c) in keeps if isinstance(c.func, ast.Attribute) and isinstance(c.func.value, ast.Name)}
    stores = [n for n in g.nodes if n.kind == 'stmt' and not n.dup and isinstance(n.ast, ast.Assign) and any(is_attr_of(t, part, 'exec_lines') for t in n.ast.targets) and
              isinstance(n.ast.value, ast.Name) and n.ast.value.id in kept_lists]
    for n in stores:
        inside = graph.in_loop_body(n, ll.ast)
        rep.ob('C19.R4', ctx.loc(f, n.ast), ctx.src(n.ast), not inside,
               'the filtered lines replace the part\'s lines once the filter loop is over' if not inside else
               'the filtered list is stored from INSIDE the filter loop: for a part that consists of star imports only no line is kept, the store never runs and the part keeps all of '
               'its star imports -- `import *` inside the generated function is a SyntaxError', anchor=CONV)
    # the filter is in force when the remove_import_star switch is ON, and the switch is on by default
    sw_facts = [fa for fa in graph.guard_facts(ctx.dom(g, g.entry), ll) if fa.polarity in (True, False) and isinstance(fa.expr, ast.AST) and 'remove_import_star' in fa.text]
    if sw_facts:
        ok_sw = all(fa.polarity is True for fa in sw_facts)
        dflt = [v for x in ast.walk(f.node) if isinstance(x, ast.Dict) for k, v in zip(x.keys, x.values) if isinstance(k, ast.Constant) and k.value == 'remove_import_star']
        ok_df = bool(dflt) and all(isinstance(v, ast.Constant) and v.value is True for v in dflt)
        rep.ob('C19.R4', ctx.loc(f, ll.ast), 'star imports are removed under %s (default %s)' % (fmt_facts(sw_facts), [ctx.src(v) for v in dflt]), ok_sw and ok_df,
               'the removal runs when the switch is on, and it is on by default' if ok_sw and ok_df else
               'the removal of star imports runs only when remove_import_star is %s / its default is %s: by default the star imports stay in the generated function body, '
               'which is a SyntaxError (`import *` only allowed at module level)' % ('OFF' if not ok_sw else 'on', [ctx.src(v) for v in dflt]), anchor=CONV)
    keep_nodes = [n for (n, _) in keeps]
    # every path through an iteration that does not keep the line passes the true edge of the star-import test
    def is_star(fa):
        e = fa.expr
        return isinstance(e, ast.Compare) and len(e.ops) == 1 and isinstance(e.ops[0], ast.In) and const_str(e.left) is not None and \
            'import *' in const_str(e.left) and is_name(e.comparators[0], line)
    star_true = [b for b in g.nodes if b.kind == 'branch' and not b.dup and graph.in_loop_body(b, ll.ast) and
                 any(is_star(fa) and fa.polarity is True for fa in graph.facts_of(b.attrs['test'].ast, b.attrs['polarity'], b)) and b.attrs['test'].kind == 'test']
    wit = graph.must_pass([bi], lambda n: n is ll, keep_nodes + star_true, efilter=graph.normal_only, avoid=[])
    # must_pass walks from the iteration entry to the loop head (end of iteration)
    rep.ob('C19.R4', ctx.loc(f, ll.ast), 'a line is dropped only if it is a star import', wit is None and bool(star_true),
           'every iteration either keeps the line or took the `" import *" in line` branch' if wit is None and star_true else
           'an executable line can be dropped although it is not a star import', witness=graph.fmt_path(wit, f.module.relpath) if wit else None, anchor=CONV)
    # ... and a star import IS dropped: from the true edge of the star test no keep site is reached within the iteration
    leak = graph.path(star_true, lambda n: any(n is k for k in keep_nodes), efilter=graph.normal_only, stop=[ll]) if star_true else None
    rep.ob('C19.R4', ctx.loc(f, ll.ast), 'a star import is dropped', leak is None and bool(star_true),
           'the star branch ends the iteration without keeping the line' if leak is None and star_true else
           'after the star-import test succeeded the line is kept all the same: `from x import *` lands inside the generated function', anchor=CONV)
    res = graph.count_events(bi, lambda n: n in keep_nodes, lambda n: n is ll, efilter=graph.normal_only)
    hi = max(r[2] for r in res.values()) if res else 0
    rep.ob('C19.R4', ctx.loc(f, ll.ast), 'a kept line is kept once', hi == 1, 'at most one append per line' if hi == 1 else 'a line can be emitted %d times' % hi, anchor=CONV)
    # the filtered list replaces exec_lines before the part is formatted
    kl = keeps[0][1].func.value.id if isinstance(keeps[0][1].func.value, ast.Name) else None
    stores = [n for n in g.nodes if n.kind == 'stmt' and not n.dup and isinstance(n.ast, ast.Assign) and is_attr_of(n.ast.targets[0], part, 'exec_lines')]
    ok = bool(stores) and all(is_name(s.ast.value, kl) for s in stores)
    fresh = [d for d in rd.defs_of(kl) if d.kind == 'assign'] if kl else []
    ok_fresh = bool(fresh) and all(isinstance(d.value, ast.List) and not d.value.elts and graph.in_loop_body(d.node, part_loop.ast) for d in fresh)
    rep.ob('C19.R4', ctx.loc(f, stores[0].ast if stores else ll.ast), 'filtered lines start empty per part and replace exec_lines', ok and ok_fresh,
           'new list per part, stored back before formatting' if ok and ok_fresh else 'the kept lines of one part leak into the next part or are not what is formatted', anchor=CONV)


def r5_want_comments(ctx):
    rep = ctx.rep
    f = ctx.func(CONV)
    g, ex_loop, ex, part_loop = _loops(ctx, f)
    rd = ctx.rd(f)
    part = part_loop.ast.target.id
    bi, cut = graph.region_of_loop(g, part_loop)
    dom = ctx.dom(g, bi, cut=cut)
    # uses of part.want as data: every one must be the text argument of utils.indent(<want>, '#...')
    uses = []
    for n in g.nodes:
        if n.dup or not graph.in_loop_body(n, part_loop.ast) or n.kind != 'stmt':
            continue
        for x in ast.walk(n.ast):
            if is_attr_of(x, part, 'want') and isinstance(x.ctx, ast.Load):
                uses.append((n, x))
    rep.floor('C19.R5', 'uses of the want text', len(uses), 1)
    want_vars = set()
    for (n, x) in uses:
        c = getattr(x, '_parent', None)
        need(not (isinstance(n.ast, ast.Assign) and n.ast.value is x), 'C19.R5: the want text is copied to a local (`%s`), which this rule does not follow' % ctx.src(n.ast))
        is_ind = False
        pre = None
        if isinstance(c, ast.Call) and c.args and c.args[0] is x:
            r = ctx.res.resolve_call(f, c)
            is_ind = r[0] == 'repo' and r[1][0].qualname == INDENT
            pre = c.args[1] if len(c.args) > 1 else next((k.value for k in c.keywords if k.arg == 'prefix'), None)
        ok = is_ind and const_str(pre) is not None and const_str(pre).startswith('#')
        facts = graph.guard_facts(dom, n)
        guarded = any(is_attr_of(fa.expr, part, 'want') and fa.polarity is True for fa in facts)
        rep.ob('C19.R5', ctx.loc(f, x), ctx.src(n.ast), ok and guarded,
               'every want line is turned into a comment, only when the part has a want' if ok and guarded else
               ('the want text enters the function body without a comment prefix on every line' if not ok else 'want formatting is not guarded by part.want'), anchor=CONV)
        st = n.ast
        if isinstance(st, (ast.Assign, ast.AugAssign)):
            t = st.targets[0] if isinstance(st, ast.Assign) else st.target
            if isinstance(t, ast.Name):
                want_vars.add(t.id)
    # the comment block is appended to the text of its own part, after the source
    joined = False
    for n in g.nodes:
        if n.dup or not graph.in_loop_body(n, part_loop.ast) or n.kind != 'stmt':
            continue
        st = n.ast
        if isinstance(st, ast.AugAssign) and isinstance(st.op, ast.Add) and isinstance(st.target, ast.Name) and any(isinstance(x, ast.Name) and x.id in want_vars for x in ast.walk(st.value)):
            tgt = st.target.id
            if tgt in want_vars:
                continue
            # target must be the formatted source of this part and the value must start with a newline
            org = [d for d in rd.at(n, tgt)]
            from_fmt = all(isinstance(d.value, ast.Call) and _callee(d.value) == 'format_part' for d in org if d.kind == 'assign') and bool(org)
            v = st.value
            nl = isinstance(v, ast.BinOp) and isinstance(v.op, ast.Add) and const_str(v.left) == '\n'
            facts = graph.guard_facts(dom, n)
            guarded = any(is_attr_of(fa.expr, part, 'want') and fa.polarity is True for fa in facts)
            joined = True
            rep.ob('C19.R5', ctx.loc(f, st), ctx.src(st), from_fmt and nl and guarded,
                   'the comment block follows the source of its own part on a new line' if from_fmt and nl and guarded else
                   'the want comments are not appended (on a new line) to the source text of their own part', anchor=CONV)
    if not joined:
        # lost for certain only when nothing in the loop reads the commented text; any other way of joining it is not judged
        readers = [n for n in g.nodes if not n.dup and n.kind in ('stmt', 'test') and isinstance(n.ast, ast.AST) and graph.in_loop_body(n, part_loop.ast) and
                   not any(n is u for (u, _) in uses) and any(isinstance(y, ast.Name) and isinstance(y.ctx, ast.Load) and y.id in want_vars for y in ast.walk(n.ast))]
        inline = [n for (n, x) in uses if not isinstance(n.ast, (ast.Assign, ast.AugAssign)) or not isinstance((n.ast.targets[0] if isinstance(n.ast, ast.Assign) else n.ast.target), ast.Name)
                  or (n.ast.targets[0] if isinstance(n.ast, ast.Assign) else n.ast.target).id not in want_vars]
        need(not readers and not [n for n in inline if n.kind == 'stmt'], 'C19.R5: the want comments are joined to the part text in a form this rule does not recognise')
    rep.ob('C19.R5', ctx.loc(f, part_loop.ast), 'want comments reach the body', joined, 'appended to the part text' if joined else 'the want text never reaches the generated body (wants are lost)', anchor=CONV)


def r6_indent(ctx):
    rep = ctx.rep
    f = ctx.func(INDENT)
    rets = [n for n in ast.walk(f.node) if isinstance(n, ast.Return)]
    need(len(rets) == 1, 'C19.R6: utils.indent has more than one return')
    v = rets[0].value
    a = f.node.args.args
    text, prefix = a[0].arg, a[1].arg
    ok = False
    if isinstance(v, ast.BinOp) and isinstance(v.op, ast.Add) and is_name(v.left, prefix):
        r = v.right
        if isinstance(r, ast.Call) and isinstance(r.func, ast.Attribute) and r.func.attr == 'replace' and is_name(r.func.value, text) and len(r.args) == 2 and const_str(r.args[0]) == '\n':
            x = r.args[1]
            ok = isinstance(x, ast.BinOp) and isinstance(x.op, ast.Add) and const_str(x.left) == '\n' and is_name(x.right, prefix)
    elif isinstance(v, ast.Call) and isinstance(v.func, ast.Attribute) and v.func.attr == 'join' and const_str(v.func.value) == '\n':
        # '\n'.join(prefix + line for line in text.split('\n'))
        gen = v.args[0] if v.args else None
        if isinstance(gen, (ast.GeneratorExp, ast.ListComp)) and isinstance(gen.elt, ast.BinOp) and is_name(gen.elt.left, prefix) and is_name(gen.elt.right, gen.generators[0].target.id if isinstance(gen.generators[0].target, ast.Name) else None):
            it = gen.generators[0].iter
            ok = isinstance(it, ast.Call) and isinstance(it.func, ast.Attribute) and it.func.attr == 'split' and is_name(it.func.value, text) and len(it.args) == 1 and const_str(it.args[0]) == '\n' and not gen.generators[0].ifs
    dflt = f.node.args.defaults[-1] if f.node.args.defaults else None
    okd = const_str(dflt) is not None and const_str(dflt) != '' and const_str(dflt).strip() == ''
    rep.ob('C19.R6', ctx.loc(f, rets[0]), ctx.src(v), ok, 'the first line and every line after a newline get the prefix' if ok else
           'utils.indent does not prefix every line: continuation lines of a converted doctest (or want comment lines) lose their indentation / comment marker', anchor=INDENT)
    rep.ob('C19.R6', ctx.loc(f, f.node), 'default prefix is whitespace', okd, repr(const_str(dflt)), nontrivial=False, anchor=INDENT)


def r7_prefix_free_text_is_exec_lines(ctx):
    """TABLE-AGREE between the writer in the dump (it edits part.exec_lines: star imports removed) and the reader format_part(prefix=False):
    the prefix-free text must be rendered from the executable lines (self.source / self.exec_lines) on every path, otherwise what the dump
    removed comes back (and hand-cut prompts need not be four characters wide)"""
    rep = ctx.rep
    f = ctx.func('xdoctest.doctest_part.DoctestPart.format_part')
    g = ctx.cfg(f)
    recv = f.node.args.args[0].arg
    params = [a.arg for a in f.node.args.args + f.node.args.kwonlyargs]
    need('prefix' in params, 'C19.R7: format_part has no prefix option')
    fs = ctx.func('xdoctest.doctest_part.DoctestPart.source')
    src_reads_exec = any(isinstance(x, ast.Attribute) and x.attr == 'exec_lines' and is_name(x.value, fs.node.args.args[0].arg) for x in ast.walk(fs.node))
    rep.ob('C19.R7', ctx.loc(fs, fs.node), 'DoctestPart.source joins exec_lines', src_reads_exec,
           'source is derived from exec_lines' if src_reads_exec else 'DoctestPart.source is no longer derived from exec_lines', nontrivial=False, anchor=fs.qualname)

    def reads_exec(n):
        if n.kind not in ('stmt', 'test') or not isinstance(n.ast, ast.AST):
            return False
        return any(isinstance(x, ast.Attribute) and x.attr in ('source', 'exec_lines') and is_name(x.value, recv) and isinstance(x.ctx, ast.Load) for x in ast.walk(n.ast))
    readers = [n for n in g.nodes if reads_exec(n)]
    rep.floor('C19.R7', 'reads of the executable lines in format_part', len(readers), 1)

    def ef(a, b, kind, tok):
        if kind != 'n':
            return False
        if b.kind == 'branch' and b.attrs['test'].kind == 'test' and b.attrs['polarity'] in (True, False):
            t = graph._env_truth(b.attrs['test'].ast, {'prefix': False})
            if t is not None and t != b.attrs['polarity']:
                return False
        return True
    wit = graph.must_pass([g.entry], lambda x: x is g.exit, through=readers, efilter=ef)
    rep.ob('C19.R7', ctx.loc(f, f.node), 'prefix=False renders the executable lines', wit is None,
           'with prefix=False every path to the return reads self.source / self.exec_lines' if wit is None else
           'with prefix=False there is a path that never reads the executable lines: the text is taken from somewhere else (the prompted original lines), so the star imports '
           'the dump removed from exec_lines re-appear in the generated function', witness=None if wit is None else graph.fmt_path(wit, f.module.relpath), anchor=f.qualname)


def r8_dump_text_always_emitted(ctx):
    """the converted module is the RESULT of the dump command, not a progress message: it is emitted at level 0 (whatever the verbosity)"""
    rep = ctx.rep
    f = ctx.func('xdoctest.runner.doctest_module')
    g = ctx.cfg(f)
    rd = ctx.rd(f)
    conv = [n for n in g.nodes if n.kind == 'stmt' and not n.dup and isinstance(n.ast, ast.Assign) and isinstance(n.ast.value, ast.Call)
            and ctx.res.resolve_call(f, n.ast.value)[0] == 'repo' and ctx.res.resolve_call(f, n.ast.value)[1][0].qualname == CONV and isinstance(n.ast.targets[0], ast.Name)]
    need(len(conv) == 1, 'C19.R8: the call of _convert_to_test_module in doctest_module was not found')
    var = conv[0].ast.targets[0].id
    outs = [(n, c) for n in g.nodes if not n.dup for c in node_calls(n) if any(is_name(a, var) for a in c.args) and isinstance(c.func, ast.Name) and c is not conv[0].ast.value]
    rep.floor('C19.R8', 'emissions of the converted module text', len(outs), 1)
    for (n, c) in outs:
        lv = next((k.value for k in c.keywords if k.arg == 'level'), None)
        if c.func.id == 'print':
            ok = True
        else:
            ok = isinstance(lv, ast.Constant) and lv.value == 0
        rep.ob('C19.R8', ctx.loc(f, c), ctx.src(c, 60), ok,
               'emitted whatever the verbosity' if ok else
               'the converted module is logged at %s: with verbosity 0 (--silent / verbose=0) the dump command prints nothing at all' % ('the default level 1' if lv is None else 'level ' + ctx.src(lv)), anchor=f.qualname)


def r9_global_exec_separator_agrees(ctx):
    """TABLE-AGREE between siblings: `--global-exec` separates statements by a literal backslash-n; DocTest.run turns that into newlines before it
    executes the text, the dump splits the text at the same separator into header lines.  The two constants must be the same string"""
    rep = ctx.rep
    fr = ctx.func(RUN)
    fc = ctx.func(CONV)

    def seps(fn, meth, nargs):
        out = []
        for c in walk_scope(fn.node):
            if isinstance(c, ast.Call) and isinstance(c.func, ast.Attribute) and c.func.attr == meth and len(c.args) >= nargs and isinstance(c.args[0], ast.Constant) \
                    and any((isinstance(x, ast.Name) and 'global' in x.id) or (isinstance(x, ast.Constant) and x.value == 'global_exec') for x in ast.walk(c.func.value)):
                out.append(c)
        return out
    run_side = seps(fr, 'replace', 2)
    dump_side = seps(fc, 'split', 1)
    need(run_side, 'C19.R9: how DocTest.run separates the statements of global_exec was not recognised')
    rep.floor('C19.R9', 'splits of global_exec in the dump', len(dump_side), 1)
    a = run_side[0].args[0].value
    for c in dump_side:
        b = c.args[0].value
        rep.ob('C19.R9', ctx.loc(fc, c), ctx.src(c, 70), a == b,
               'same separator %r as the run path' % a if a == b else
               'the dump splits global_exec at %r, the run path at %r: a multi-statement --global-exec lands in the generated functions as one line with the separator still in it '
               '(the generated module does not parse)' % (b, a), anchor=CONV)


def r10_dump_converts_the_enabled_doctests(ctx):
    """"one test function per ENABLED doctest": which doctests the dump command hands to the converter is decided by the gathering of
    doctest_module -- the same clause as C10.R5 (for `dump`, like for `all`, force-disabled doctests are left out)"""
    from . import c10
    from .common import run_as
    run_as(ctx, c10.r5_gathering, 'C10.R5', 'C19.R10')


def r11_definite_assignment(ctx):
    """the converter builds Python text from locals: a local read before it was assigned aborts the dump with UnboundLocalError
    (DEFINITE-ASSIGNMENT over runner.py, see common.definite_assignment)"""
    from .common import definite_assignment
    definite_assignment(ctx, 'C19.R11', {'xdoctest.runner'}, 10)


def r2b_name_is_an_identifier(ctx):
    """the generated `def` name is built from the module name and the callname, both dotted: every dot is replaced by an underscore
    (`.replace('.', '_')`, in that argument order), otherwise `def test_pkg.mod_f_0():` is not Python"""
    rep = ctx.rep
    n = 0
    for f in ctx.prog.funcs.values():
        if f.module.name != 'xdoctest.runner':
            continue
        for c in walk_scope(f.node):
            if isinstance(c, ast.Call) and isinstance(c.func, ast.Attribute) and c.func.attr == 'replace' and len(c.args) == 2 and all(isinstance(a, ast.Constant) for a in c.args) \
                    and {c.args[0].value, c.args[1].value} == {'.', '_'} and any(isinstance(x, ast.Attribute) and x.attr in ('modname', 'callname') for x in ast.walk(c.func.value)):
                n += 1
                ok = c.args[0].value == '.'
                rep.ob('C19.R2b', ctx.loc(f, c), ctx.src(c, 60), ok, 'dots become underscores' if ok else
                       'the arguments of replace are swapped: underscores become dots, the dots of the module path stay, and the generated `def` line is a syntax error', anchor=f.qualname)
    rep.floor('C19.R2b', 'dot replacements in the generated function name', n, 1)
    # ... for EVERY dotted component that goes into the name
    fcv = ctx.func(CONV)
    hosts = [fcv] + [h for h in ctx.prog.funcs.values() if h.module is fcv.module and h.cls is None and h is not fcv and 'name' in h.name]
    for h in hosts:
        for x in walk_scope(h.node):
            if isinstance(x, ast.Assign) and len(x.targets) == 1 and isinstance(x.targets[0], ast.Name) and 'name' in x.targets[0].id and \
                    any(isinstance(y, ast.Attribute) and y.attr in ('modname', 'callname') for y in ast.walk(x.value)) and any(isinstance(y, ast.Constant) and y.value == 'test' or
                                                                                                                            (isinstance(y, ast.Constant) and isinstance(y.value, str) and y.value.startswith('test_')) for y in ast.walk(x.value)):
                for comp in [y for y in ast.walk(x.value) if isinstance(y, ast.Attribute) and y.attr in ('modname', 'callname')]:
                    cur, covered = comp, False
                    while cur is not None and cur is not x:
                        par = getattr(cur, '_parent', None)
                        if isinstance(par, ast.Attribute) and par.attr == 'replace' and isinstance(getattr(par, '_parent', None), ast.Call):
                            c = par._parent
                            if len(c.args) == 2 and isinstance(c.args[0], ast.Constant) and c.args[0].value == '.':
                                covered = True
                        cur = par
                    rep.ob('C19.R2b', ctx.loc(h, comp), 'dots of %s in the generated name' % ctx.src(comp), covered,
                           'replaced by underscores' if covered else
                           'the dotted %s goes into the `def` name without its dots replaced: for a module inside a package the dump emits `def test_pkg.mod_f_0():`' % comp.attr, anchor=h.qualname)


# ---------------------------------------------------------------------------
from ..selftest import fire, silent      # noqa: E402

RN = 'xdoctest/runner.py'
US = 'xdoctest/utils/util_str.py'
_SECTIONS_OBJECT = (
    (RN, "'\\n'.join(docstr_lines + header_lines + body_lines)", "sec.joined(docstr_lines)", 2),
    (RN, "        body_lines = []\n", "        sec = _Sections()\n"),
    (RN, "        header_lines = []\n", ""),
    ('re', RN, r"(?<![.\w])(header_lines|body_lines)\b", r"sec.\1"),
)
_SECTIONS_CLASS = ("class _Sections:\n    def __init__(self):\n        self.header_lines = []\n        self.body_lines = []\n\n    def joined(self, first):\n"
                   "        return '\\n'.join(%s)\n\n\ndef _convert_to_test_module(enabled_examples):\n")

VARIANTS = [
    fire('filtered-lines-stored-inside-the-filter-loop', 'C19.R4', (RN, "                    new_exec_lines.append(line)\n                part.exec_lines = new_exec_lines\n", "                    new_exec_lines.append(line)\n                    part.exec_lines = new_exec_lines\n")),
    fire('module-path-dots-kept-in-the-name', 'C19.R2b', (RN, "example.modname.replace('.', '_') + '_'", "example.modname + '_'")),
    fire('function-name-keeps-its-dots', 'C19.R2b', (RN, "example.modname.replace('.', '_')", "example.modname.replace('_', '.')")),
    fire('star-import-removal-only-when-switched-off', 'C19.R4', (RN, "            if dump_config['remove_import_star']:\n", "            if not dump_config['remove_import_star']:\n")),
    fire('filter-loop-left-at-the-first-star-import', 'C19.R4', (RN, "                    if ' import *' in line:\n                        continue\n", "                    if ' import *' in line:\n                        break\n")),
    fire('star-import-kept-after-the-test', 'C19.R4', (RN, "                    if ' import *' in line:\n                        continue\n", "                    if ' import *' in line:\n                        pass\n")),
    fire('want-comment-header-never-assigned', 'C19.R11', (RN, "                want_text = '# doctest want:\\n'\n", "                pass\n")),
    fire('dump-text-logged-at-default-level', 'C19.R8', (RN, "        _log(module_text, level=0)\n", "        _log(module_text)\n")),
    fire('dump-splits-global-exec-at-real-newlines', 'C19.R9', (RN, "example.config['global_exec'].split('\\\\n')", "example.config['global_exec'].split('\\n')")),
    fire('prefix-free-text-cut-from-prompted-lines', 'C19.R7', ('xdoctest/doctest_part.py', "        else:\n            src_text = self.source\n", "        else:\n            src_text = '\\n'.join(ln[4:] for ln in self.orig_lines) if self.orig_lines is not None else self.source\n")),
    fire('skip-examples-with-directive', 'C19.R1', (RN, "        # if '+SKIP' in body:\n        #     continue\n", "        if '+SKIP' in body:\n            continue\n")),
    fire('body-not-indented', 'C19.R1', (RN, "        func_text = 'def {}():\\n'.format(func_name) + utils.indent(body)\n", "        func_text = 'def {}():\\n'.format(func_name) + body\n")),
    fire('name-without-index', 'C19.R2', ('re', RN, r"(func_name = 'test_' \+ example\.modname\.replace\('\.', '_'\) \+ '_' \+ example\.callname\.replace\('\.', '_'\))[^\n]*\n", r"\1\n")),
    fire('prompts-kept', 'C19.R3', (RN, "                                         prefix=False, colored=False,\n", "                                         prefix=True, colored=False,\n")),
    fire('want-text-in-body', 'C19.R3', (RN, "            body_part = part.format_part(linenos=False, want=False,\n", "            body_part = part.format_part(linenos=False, want=True,\n")),
    fire('wantless-parts-dropped', 'C19.R3', (RN, "                body_part += '\\n' + want_text\n            body_lines.append(body_part)\n", "                body_part += '\\n' + want_text\n                body_lines.append(body_part)\n")),
    fire('all-imports-dropped', 'C19.R4', (RN, "                    if ' import *' in line:\n                        continue\n", "                    if ' import ' in line:\n                        continue\n")),
    fire('comment-lines-dropped', 'C19.R4', (RN, "                    if ' import *' in line:\n                        continue\n", "                    if ' import *' in line or line.lstrip().startswith('#'):\n                        continue\n")),
    fire('star-imports-removed-in-place', 'C19.R4', (RN, "                new_exec_lines = []\n", ""), (RN, "                    if ' import *' in line:\n                        continue\n                    new_exec_lines.append(line)\n                part.exec_lines = new_exec_lines\n", "                    if ' import *' in line:\n                        part.exec_lines.remove(line)\n")),
    fire('want-not-commented', 'C19.R5', (RN, "                want_text += utils.indent(part.want, '# ')\n", "                want_text += part.want\n")),
    fire('want-never-joined', 'C19.R5', (RN, "                body_part += '\\n' + want_text\n", "                pass\n")),
    fire('indent-first-line-only', 'C19.R6', (US, "    return prefix + text.replace('\\n', '\\n' + prefix)\n", "    return prefix + text\n")),
    fire('index-suffix-only-when-nonzero', 'C19.R2', ('re', RN, r"(func_name = 'test_' \+ example\.modname\.replace\('\.', '_'\) \+ '_' \+ example\.callname\.replace\('\.', '_'\))[^\n]*\n", r"\1\n        if example.num > 0:\n            func_name += '_' + str(example.num)\n")),
    silent('sections-in-a-small-object', *_SECTIONS_OBJECT, (RN, "def _convert_to_test_module(enabled_examples):\n", _SECTIONS_CLASS % 'first + self.header_lines + self.body_lines'),
           note='the loader dissolves a new local value object into the variables it stands for'),
    fire('sections-object-joins-in-the-wrong-order', 'C19.R3', *_SECTIONS_OBJECT, (RN, "def _convert_to_test_module(enabled_examples):\n", _SECTIONS_CLASS % 'first + self.body_lines + self.header_lines')),
    silent('indent-as-join', (US, "    return prefix + text.replace('\\n', '\\n' + prefix)\n", "    return '\\n'.join(prefix + line for line in text.split('\\n'))\n")),
    silent('name-via-unique-callname', ('re', RN, r"func_name = 'test_' \+ example\.modname\.replace\('\.', '_'\) \+ '_' \+ example\.callname\.replace\('\.', '_'\)[^\n]*\n", "func_name = 'test_' + example.modname.replace('.', '_') + '_' + example.unique_callname.replace('.', '_').replace(':', '_')\n")),
]
