"""
C16 -- static and dynamic analysis find the same doctests (kind tables agree).
"""
import ast

from ..context import need
from ..loader import AnalysisError
from .. import graph
from ..roles import node_calls
from ..resolve import walk_scope
from .common import fmt_facts, is_name
from . import c07

EXPLANATION = (
    'TABLE-AGREE between two independent implementations of one interface, the AST visitor (static) and the module-dict walk (dynamic): '
    'for each kind of documented callable the row of one side must have its counterpart on the other. Static side: handler bound for '
    'def / async def / class, one class level, no exit on Name decorators (static/class methods recorded), property getter only. '
    'Dynamic side (iter_module_doctestables): FunctionType, staticmethod, classmethod, property are members of the type table; classes are '
    'entered through an isinstance(val, type) branch whose inner loop yields only table members, contains no recursive call and no nested '
    'type branch (one level); static/class methods are unwrapped by __func__, properties by fget only (fset/fdel never read); every yield '
    'is edge-dominated by is_defined_by_module. Equality of the collected docstring texts and decorated callables are not decided.'
    ' R3 accepts verdict variables and direct returns; a `return False` for a non-module item must lie behind the failed __module__ test.')
DECIDES = ['TABLE-AGREE of collector kind tables', 'EXHAUSTIVE static handler kinds']
NOT_DECIDED = ['equality of the docstring text each side attaches to an identifier', 'callables produced by decorators without functools.wraps', 'definitions inside try blocks']

DYN = 'xdoctest.dynamic_analysis.iter_module_doctestables'
V = c07.V


def run(ctx):
    for fn in (r1_static_rows, r2_dynamic_rows, r3_ownership_predicate, r4_no_name_filter, r5_static_descends_compound):
        ctx.rep.rule(fn, ctx)


def r1_static_rows(ctx):
    rep = ctx.rep
    # the static rows are the C07 facts; the async row is the one the dynamic side gets for free
    c07.r1_exhaustive_kinds(ctx, rule='C16.R1')
    # no exit on Name decorators (staticmethod / classmethod / property getter are recorded)
    for f in [h for h in c07._handler_funcs(ctx) if c07._record_stores(ctx, h)[1]]:
        g, stores = c07._record_stores(ctx, f)
        dom = ctx.dom(g, g.entry)
        bad = []
        for n in g.nodes:
            if n.kind == 'stmt' and isinstance(n.ast, ast.Return) and not n.dup and not any(dom.dominates(s, n) for s in stores):
                for fa in graph.guard_facts(dom, n):
                    e = fa.expr
                    if isinstance(e, ast.Compare) and isinstance(e.left, ast.Attribute) and e.left.attr == 'id' and fa.polarity is True:
                        bad.append(ctx.src(e))
        rep.ob('C16.R1', ctx.loc(f, f.node), 'static: plain-name decorators do not exclude a method', not bad,
               'static / class methods and property getters are recorded like the dynamic side yields them' if not bad else
               'definitions decorated with %s are skipped statically but collected dynamically' % bad, anchor=f.qualname)


def r2_dynamic_rows(ctx):
    rep = ctx.rep
    f = ctx.func(DYN)
    g = ctx.cfg(f)
    rd = ctx.rd(f)
    dom = ctx.dom(g, g.entry)
    # the type table
    tables = [d for d in rd.defs if isinstance(d.value, ast.Tuple) and d.kind == 'assign' and
              any(ast.unparse(e) in ('types.FunctionType', 'FunctionType') for e in d.value.elts)]
    need(len(tables) == 1, 'C16.R2: type table (tuple containing types.FunctionType) not found')
    tname = tables[0].name
    members = [ast.unparse(e) for e in tables[0].value.elts]
    rep.note('dynamic_type_table', members)
    for need_m, why in (('types.FunctionType', 'def and async def at module level / in a class'), ('staticmethod', 'static methods'),
                        ('classmethod', 'class methods'), ('property', 'property getters')):
        ok = need_m in members or need_m.split('.')[-1] in members
        rep.ob('C16.R2', ctx.loc(f, tables[0].node.ast), '%s in %s' % (need_m, tname), ok,
               'dynamic side collects %s' % why if ok else 'the dynamic collector ignores %s, which the static collector records' % why, anchor=DYN)

    # the table under its own name and under plain copies of it (`valid_func_types = _VALID_FUNC_TYPES`)
    tnames = {tname}
    grew = True
    while grew:
        grew = False
        for d in rd.defs:
            if d.kind == 'assign' and isinstance(d.value, ast.Name) and d.value.id in tnames and d.name not in tnames and len(rd.defs_of(d.name)) == 1:
                tnames.add(d.name)
                grew = True

    def is_table_test(fa):
        e = fa.expr
        return isinstance(e, ast.Call) and is_name(e.func, 'isinstance') and len(e.args) == 2 and isinstance(e.args[1], ast.Name) and e.args[1].id in tnames

    def is_type_test(fa):
        e = fa.expr
        return isinstance(e, ast.Call) and is_name(e.func, 'isinstance') and len(e.args) == 2 and is_name(e.args[1], 'type')

    def is_defined_test(fa):
        e = fa.expr
        if not isinstance(e, ast.Call):
            return False
        r = ctx.res.resolve_call(f, e)
        if r[0] != 'repo':
            return False
        callee = r[1][0]
        if callee.qualname == 'xdoctest.dynamic_analysis.is_defined_by_module':
            return True
        # a nested wrapper returning is_defined_by_module(...)
        rets = [x for x in ast.walk(callee.node) if isinstance(x, ast.Return)]
        return bool(rets) and all(isinstance(x.value, ast.Call) and ctx.res.resolve_call(callee, x.value)[0] == 'repo' and
                                  ctx.res.resolve_call(callee, x.value)[1][0].qualname == 'xdoctest.dynamic_analysis.is_defined_by_module' for x in rets)
    yields = [n for n in g.nodes if n.kind == 'stmt' and not n.dup and any(isinstance(x, ast.Yield) for x in ast.walk(n.ast))]
    rep.floor('C16.R2', 'yields of the dynamic collector', len(yields), 3)
    loops = [n for n in g.nodes if n.kind == 'for' and not n.dup]
    outer = [l for l in loops if not any(fr.kind == 'loop' for fr in l.frames)]
    need(len(outer) == 1, 'C16.R2: outer loop over module.__dict__ not found')
    inner = [l for l in loops if any(fr.kind == 'loop' for fr in l.frames)]
    n_class_yields = 0
    for y in yields:
        facts = graph.guard_facts(dom, y)
        in_inner = any(graph.in_loop_body(y, l.ast) for l in inner)
        own = any(is_defined_test(fa) and fa.polarity is True for fa in facts)
        rep.ob('C16.R2', ctx.loc(f, y.ast), ctx.src(y.ast), own,
               'yield is edge-dominated by is_defined_by_module true (imported names are ignored)' if own else
               'a name is yielded without checking that this module defines it: imported callables would be collected dynamically only', anchor=DYN)
        table_t = [fa for fa in facts if is_table_test(fa) and fa.polarity is True]
        type_t = [fa for fa in facts if is_type_test(fa) and fa.polarity is True]
        if in_inner:
            n_class_yields += 1
            ok = bool(table_t) and len(type_t) == 1
            rep.ob('C16.R2', ctx.loc(f, y.ast), 'class member: ' + ctx.src(y.ast), ok,
                   'class members are yielded only when they are table members, under exactly one class level' if ok else
                   'class members of other kinds / deeper nesting are yielded (guards: %s)' % fmt_facts(facts), anchor=DYN)
        else:
            ok = bool(table_t) or bool(type_t)
            rep.ob('C16.R2', ctx.loc(f, y.ast), 'module member: ' + ctx.src(y.ast), ok,
                   'module members are yielded as table members or as classes' if ok else 'module members of arbitrary kinds are yielded', anchor=DYN)
    rep.ob('C16.R2', ctx.loc(f, f.node), 'methods of module-level classes are yielded', n_class_yields >= 1,
           '%d yield(s) inside the class-member loop' % n_class_yields if n_class_yields else 'the dynamic collector no longer yields methods, the static one records Class.method', anchor=DYN)
    # one level: no recursion, no nested type branch inside the inner loop
    rec = [c for c in walk_scope(f.node) if isinstance(c, ast.Call) and ctx.res.resolve_call(f, c)[0] == 'repo' and ctx.res.resolve_call(f, c)[1][0] is f]
    rep.ob('C16.R2', ctx.loc(f, f.node), 'no recursion into nested classes', not rec,
           'classes nested in classes are not entered (matches the one class level of the static visitor)' if not rec else 'the dynamic collector recurses into nested classes, the static one does not', anchor=DYN)
    # unwrapping
    attrs_read = {x.attr for x in ast.walk(f.node) if isinstance(x, ast.Attribute) and isinstance(x.ctx, ast.Load)}
    # ... also when the attribute is named by a string: getattr(x, 'fget') here, operator.attrgetter('fget') here or in a module-level table
    for x in list(ast.walk(f.node)) + [y for st in f.module.tree.body if isinstance(st, (ast.Assign, ast.AnnAssign)) for y in ast.walk(st)]:
        if isinstance(x, ast.Call) and ((isinstance(x.func, ast.Name) and x.func.id in ('getattr', 'attrgetter')) or (isinstance(x.func, ast.Attribute) and x.func.attr == 'attrgetter')):
            attrs_read |= {a.value for a in x.args if isinstance(a, ast.Constant) and isinstance(a.value, str)}
    ok = 'fget' in attrs_read and not ({'fset', 'fdel'} & attrs_read)
    rep.ob('C16.R2', ctx.loc(f, f.node), 'property -> fget only', ok,
           'only the getter of a property is collected (static side: setter / deleter exits)' if ok else
           'property accessors read: %s' % sorted({'fget', 'fset', 'fdel'} & attrs_read), anchor=DYN)
    ok = '__func__' in attrs_read
    rep.ob('C16.R2', ctx.loc(f, f.node), 'staticmethod / classmethod -> __func__', ok,
           'wrapped methods are unwrapped to the function that carries the docstring' if ok else 'static / class methods are not unwrapped', nontrivial=False, anchor=DYN)
    # key of a class member is Class.member like the static callname
    for y in yields:
        if any(graph.in_loop_body(y, l.ast) for l in inner):
            v = [x for x in ast.walk(y.ast) if isinstance(x, ast.Yield)][0].value
            key = v.elts[0] if isinstance(v, ast.Tuple) and v.elts else None
            ok = key is not None and any(isinstance(x, ast.Constant) and x.value == '.' for x in ast.walk(key))
            rep.ob('C16.R2', ctx.loc(f, y.ast), 'member key: %s' % (ctx.src(key) if key is not None else '?'), ok,
                   "members are keyed 'Class.member' on both sides" if ok else 'dynamic member keys are not of the form Class.member', anchor=DYN)


def r3_ownership_predicate(ctx):
    """is_defined_by_module: for non-module items the verdict starts False and can only be raised to True by one of the
    sufficient tests; the `__module__` test is consulted for every such item (functools.wraps copies `__module__`, so a
    wrapped def of this module is owned dynamically exactly as the static side sees it)"""
    rep = ctx.rep
    q = 'xdoctest.dynamic_analysis.is_defined_by_module'
    f = ctx.func(q)
    g = ctx.cfg(f)
    rd = ctx.rd(f)
    dom = ctx.dom(g, g.entry)
    rets = [n for n in g.nodes if n.kind == 'stmt' and isinstance(n.ast, ast.Return) and not n.dup and n.ast.value is not None]
    name_rets = [n for n in rets if isinstance(n.ast.value, ast.Name)]
    direct = [n for n in rets if not isinstance(n.ast.value, ast.Name)]
    need(rets and len({n.ast.value.id for n in name_rets}) <= 1, 'C16.R3: is_defined_by_module does not return one verdict variable or direct verdicts')
    flag = name_rets[0].ast.value.id if name_rets else None

    def module_branch(n):
        """True/False if node n lies on the branch for module objects / other items"""
        for fa in graph.guard_facts(dom, n):
            e = fa.expr
            if isinstance(e, ast.Call) and is_name(e.func, 'isinstance') and 'ModuleType' in ast.unparse(e.args[1]):
                return fa.polarity
        return None
    n_true = 0
    sites = [(d.node, d.value, True) for d in (rd.defs_of(flag) if flag else [])] + [(n, n.ast.value, False) for n in direct]
    false_rets = []
    for (sn, v, is_def) in sites:
        if module_branch(sn) is True:
            continue
        if isinstance(v, ast.Constant) and v.value is False and module_branch(sn) is None and is_def:
            continue        # initialiser
        if isinstance(v, ast.Constant) and v.value is False and not is_def:
            false_rets.append(sn)   # a final `return False`: legitimate once the sufficient tests have failed (checked below)
            continue
        if isinstance(v, ast.Constant) and v.value is False and is_def:
            # a False that no True can flow into overwrites nothing: it is the verdict of "every sufficient test failed", like a final `return False`
            trues = [d.node for d in rd.defs_of(flag) if isinstance(d.value, ast.Constant) and d.value.value is True]
            if not any(graph.path(t.nsucc(), lambda x, sn=sn: x is sn, efilter=graph.normal_only) is not None for t in trues):
                false_rets.append(sn)
                continue
        ok = isinstance(v, ast.Constant) and v.value is True
        n_true += 1 if ok else 0
        rep.ob('C16.R3', ctx.loc(f, sn.ast), ctx.src(sn.ast), ok,
               'a sufficient test raises the verdict to True' if ok else
               'the verdict of a non-module item is overwritten by a computed value: a positive `__module__` / `__objclass__` match no longer decides '
               '(a def of this module wrapped by a functools.wraps decorator from another module is judged foreign)', anchor=q)
    rep.floor('C16.R3', 'sufficient ownership tests', n_true, 2)
    # a name of a module owns an item only when it EQUALS the target name: a prefix / substring / membership test also accepts the submodules
    # and namesakes of the target (`pkg` vs `pkg_util`, `pkg` vs `pkg.core`), whose functions the static collector never attributes to it
    tgt_names = {'target_modname'}
    for n in g.nodes:
        if n.kind != 'test' or n.dup or module_branch(n) is not False:
            continue
        for x in ast.walk(n.ast):
            loose = None
            if isinstance(x, ast.Call) and isinstance(x.func, ast.Attribute) and x.func.attr in ('startswith', 'endswith', 'find', 'count') and x.args and \
                    any(isinstance(y, ast.Name) and y.id in tgt_names for y in ast.walk(x.args[0])):
                loose = x
            if isinstance(x, ast.Compare) and len(x.ops) == 1 and isinstance(x.ops[0], (ast.In, ast.NotIn)) and \
                    (any(isinstance(y, ast.Name) and y.id in tgt_names for y in ast.walk(x.left)) or is_name(x.comparators[0], 'target_modname')):
                loose = x
            if loose is not None:
                rep.ob('C16.R3', ctx.loc(f, loose), ctx.src(loose), False,
                       'ownership is decided by a prefix / substring test against the target module name instead of equality: items of a module whose name merely starts with (or contains) '
                       'the target name -- `pkg_util`, `pkg.core` -- are taken for items of `pkg`, so the dynamic collector yields imported functions the static collector does not', anchor=q)
    # the __module__ test is consulted for every non-module item
    item = f.node.args.args[0].arg

    def is_module_attr_read(e):
        if isinstance(e, ast.Attribute) and e.attr == '__module__' and is_name(e.value, item):
            return True
        return isinstance(e, ast.Call) and is_name(e.func, 'getattr') and len(e.args) >= 2 and is_name(e.args[0], item) and isinstance(e.args[1], ast.Constant) and e.args[1].value == '__module__'

    def is_target(e):
        return is_name(e, 'target_modname') or (isinstance(e, ast.Attribute) and e.attr == '__name__' and is_name(e.value, f.node.args.args[1].arg))

    def only_module_attr(node, e):
        if is_module_attr_read(e):
            return True
        if isinstance(e, ast.Name):
            ds = rd.at(node, e.id)
            return bool(ds) and all(d.kind == 'assign' and isinstance(d.value, ast.AST) and is_module_attr_read(d.value) for d in ds)
        return False
    cmp_tests = []
    for n in g.nodes:
        if n.kind == 'test' and not n.dup and module_branch(n) is False and isinstance(n.ast, ast.Compare) and len(n.ast.ops) == 1 and isinstance(n.ast.ops[0], ast.Eq):
            l, r = n.ast.left, n.ast.comparators[0]
            if is_target(r) or is_target(l):
                cmp_tests.append((n, l if is_target(r) else r))
    need(cmp_tests, 'C16.R3: no comparison with the target module name on the non-module branch')
    tests = [n for (n, other) in cmp_tests if only_module_attr(n, other)]
    if not tests:
        n0 = cmp_tests[0][0]
        rep.ob('C16.R3', ctx.loc(f, n0.ast), 'item.__module__ == target decides', False,
               'no test compares exactly the `__module__` attribute of the item with the target module (candidates: %s): a def of this module that is wrapped by a functools.wraps '
               'decorator defined elsewhere keeps `__module__` but has foreign `__globals__`, so the dynamic collector drops what the static collector records' %
               [ctx.src(t.ast) for (t, _) in cmp_tests], anchor=q)
    for t in tests:
        others = [fa for fa in graph.guard_facts(dom, t) if not (isinstance(fa.expr, ast.Call) and is_name(fa.expr.func, 'isinstance'))]
        tb = [b for b in t.nsucc() if b.kind == 'branch' and b.attrs['polarity'] is True]
        sets_true = any(x.kind == 'stmt' and ((isinstance(x.ast, ast.Assign) and flag is not None and is_name(x.ast.targets[0], flag)) or isinstance(x.ast, ast.Return))
                        and isinstance(x.ast.value, ast.Constant) and x.ast.value.value is True
                        for b in tb for x in b.nsucc())
        ok = not others and sets_true
        rep.ob('C16.R3', ctx.loc(f, t.ast), ctx.src(t.ast), ok,
               'consulted for every non-module item and sufficient' if ok else ('the `__module__` test is only consulted under %s' % fmt_facts(others) if others else 'a positive `__module__` test does not set the verdict'), anchor=q)


    # the last resort -- the module named by the globals the function was defined in -- is tried for EVERY item the other tests left undecided
    # (a def whose __module__ was re-pointed by a decorator is still this module's function for the static collector)
    fallbacks = [n for n in g.nodes if not n.dup and n.kind in ('stmt', 'test') and module_branch(n) is False and
                 any(isinstance(x, ast.Attribute) and x.attr == '__globals__' and is_name(x.value, item) for x in ast.walk(n.ast))]
    rep.floor('C16.R3', 'reads of the defining globals', len(fallbacks), 1)
    for n in fallbacks:
        extra = []
        for fa in graph.guard_facts(dom, n):
            if isinstance(fa.expr, ast.Call) and is_name(fa.expr.func, 'isinstance'):
                continue
            names = {y.id for y in ast.walk(fa.expr) if isinstance(y, ast.Name)}
            if flag is not None and names == {flag}:
                continue
            # "one of the sufficient tests failed" (the fallback written as the last arm of the chain) says the same as "still undecided"
            if fa.polarity is False and (any(fa.expr is t.ast for (t, _o) in cmp_tests) or (isinstance(fa.expr, ast.Call) and is_name(fa.expr.func, 'hasattr'))):
                continue
            extra.append(fa)
        rep.ob('C16.R3', ctx.loc(f, n.ast), ctx.src(n.ast), not extra,
               'consulted whenever the verdict is still undecided' if not extra else
               'the fallback on the globals of the definition is only consulted under %s: an item of this module whose `__module__` says otherwise is judged foreign by the dynamic collector '
               'while the static collector records it' % fmt_facts(extra), anchor=q)
    for fr_ in false_rets:
        facts = graph.guard_facts(dom, fr_)
        ok = any(fa.polarity is False and any(fa.expr is t.ast for t in tests) for fa in facts)
        rep.ob('C16.R3', ctx.loc(f, fr_.ast), ctx.src(fr_.ast) + ' for a non-module item', ok,
               'only after the `__module__` test failed' if ok else
               'a non-module item is judged foreign on a path that never consulted its `__module__` (guards: %s)' % fmt_facts(facts), anchor=q)


# ---------------------------------------------------------------------------
def r4_no_name_filter(ctx):
    """the static visitor records a definition whatever it is called; the dynamic walk must not filter by name either
    (no branch of iter_module_doctestables may depend on the dictionary key)"""
    rep = ctx.rep
    f = ctx.func(DYN)
    g = ctx.cfg(f)
    keys = set()
    for n in g.nodes:
        if n.kind == 'for' and not n.dup and isinstance(n.ast.target, ast.Tuple) and n.ast.target.elts and isinstance(n.ast.target.elts[0], ast.Name):
            it = n.ast.iter
            if isinstance(it, ast.Call) and isinstance(it.func, ast.Attribute) and it.func.attr == 'items':
                keys.add(n.ast.target.elts[0].id)
    need(keys, 'C16.R4: loops over <namespace>.items() not found')
    tests = [n for n in g.nodes if n.kind == 'test' and not n.dup]
    bad = [t for t in tests if any(isinstance(x, ast.Name) and x.id in keys for x in ast.walk(t.ast))]
    rep.ob('C16.R4', ctx.loc(f, bad[0].ast if bad else f.node), 'no branch on the member name' + (': ' + ctx.src(bad[0].ast) if bad else ''), not bad,
           '%d tests, none reads the dictionary key' % len(tests) if not bad else
           'the dynamic collector filters members by name (`%s`); the static collector has no such filter, so the two disagree for definitions with such names' % ctx.src(bad[0].ast), anchor=DYN)
    # comprehension / filter forms on the iterated namespace
    for n in g.nodes:
        if n.kind == 'for' and not n.dup and isinstance(n.ast.target, ast.Tuple):
            it = n.ast.iter
            ok = isinstance(it, ast.Call) and isinstance(it.func, ast.Attribute) and it.func.attr == 'items' and not it.args and \
                isinstance(it.func.value, ast.Attribute) and it.func.value.attr == '__dict__'
            rep.ob('C16.R4', ctx.loc(f, n.ast), 'iterates %s' % ctx.src(it), ok, 'the whole namespace dictionary' if ok else 'the namespace is pre-filtered before the walk', nontrivial=False, anchor=DYN)


def r5_static_descends_compound(ctx):
    """definitions under try / with / loops exist after import: the static visitor must visit them too (same clause as C07.R8)"""
    from . import c07
    c07.r8_compound_statements_descend(ctx, rule='C16.R5')


# ---------------------------------------------------------------------------
from ..selftest import fire, silent      # noqa: E402

SA = 'xdoctest/static_analysis.py'
DY = 'xdoctest/dynamic_analysis.py'
VARIANTS = [
    fire('globals-fallback-only-without-module-attr', 'C16.R3', ('xdoctest/dynamic_analysis.py', "        if not flag:\n            try:\n                item_modname = item.__globals__", "        if not flag and getattr(item, '__module__', None) is None:\n            try:\n                item_modname = item.__globals__")),
    fire('globals-name-compared-by-prefix', 'C16.R3', ('xdoctest/dynamic_analysis.py', "                if item_modname == target_modname:\n", "                if item_modname.startswith(target_modname):\n")),
    fire('dynamic-skips-dunder-names', 'C16.R4', (DY, "    for key, val in module.__dict__.items():\n        if isinstance(val, valid_func_types):\n", "    for key, val in module.__dict__.items():\n        if key.startswith('__'):\n            continue\n        if isinstance(val, valid_func_types):\n")),
    fire('static-skips-except-handlers', 'C16.R5', (SA, "    # -- helpers ---\n", "    def visit_Try(self, node):\n        for child in node.body + node.orelse + node.finalbody:\n            self.visit(child)\n\n    # -- helpers ---\n")),
    fire('module-attr-only-as-fallback', 'C16.R3', (DY, "        if getattr(item, '__module__', None) == target_modname:\n            flag = True\n", "        try:\n            item_modname = item.__globals__['__name__']\n        except AttributeError:\n            item_modname = getattr(item, '__module__', None)\n        if item_modname == target_modname:\n            flag = True\n")),
    fire('revert-fix-F3-no-async-handler', 'C16.R1',
         (SA, "    # Coroutine functions are documented callables like any other function\n    visit_AsyncFunctionDef = visit_FunctionDef\n", "")),
    fire('dynamic-drops-staticmethod', 'C16.R2', (DY, "        classmethod,\n        staticmethod,\n", "        classmethod,\n")),
    fire('dynamic-collects-setter', 'C16.R2', (DY, "                        item = subval.fget\n", "                        item = subval.fset or subval.fget\n")),
    fire('dynamic-yields-imported', 'C16.R2', (DY, "            if not _recurse(val, module):\n                continue\n            yield key, val\n        elif", "            yield key, val\n        elif")),
    fire('dynamic-recurses-into-nested-classes', 'C16.R2',
         (DY, "                    yield key + '.' + subkey, item\n", "                    yield key + '.' + subkey, item\n                elif isinstance(subval, type):\n                    for k2, v2 in iter_module_doctestables(subval):\n                        yield key + '.' + subkey + '.' + k2, v2\n")),
    fire('static-skips-staticmethods', 'C16.R1',
         (SA, "                    if decor.id == 'property':\n", "                    if decor.id == 'staticmethod':\n                        return\n                    if decor.id == 'property':\n")),
    fire('globals-preferred-over-module-attr', 'C16.R3',
         (DY, "        if getattr(item, '__module__', None) == target_modname:\n            flag = True\n", "        item_globals = getattr(item, '__globals__', None)\n        if item_globals is not None:\n            flag = item_globals.get('__name__') == target_modname\n        elif getattr(item, '__module__', None) == target_modname:\n            flag = True\n")),
    silent('dynamic-table-reordered', (DY, "        classmethod,\n        staticmethod,\n", "        staticmethod,\n        classmethod,\n")),
]
