"""
Helpers shared by the per-property rule modules.
"""
import ast

from ..context import need
from ..loader import AnalysisError
from .. import graph
from ..dataflow import field_name


def is_name(e, name):
    return isinstance(e, ast.Name) and e.id == name


def is_attr_of(e, base, attr):
    return isinstance(e, ast.Attribute) and e.attr == attr and is_name(e.value, base)


def const_str(e):
    return e.value if isinstance(e, ast.Constant) and isinstance(e.value, str) else None


def subscript_key(e):
    """('base text', 'KEY') for X['KEY'] loads"""
    if isinstance(e, ast.Subscript) and isinstance(e.slice, ast.Constant) and isinstance(e.slice.value, str):
        return ast.unparse(e.value), e.slice.value
    return None


def keys_read(expr):
    """constant string subscripts read anywhere inside expr: [(base, key)]"""
    out = []
    for n in ast.walk(expr):
        k = subscript_key(n)
        if k and isinstance(n.ctx, ast.Load):
            out.append(k)
    return out


def fact_part_attr(fact, var, attr):
    """fact is `<var>.<attr>` (truthiness) -> polarity, else None"""
    if is_attr_of(fact.expr, var, attr):
        return fact.polarity
    return None


def fact_call_method(fact, var, meth):
    e = fact.expr
    if isinstance(e, ast.Call) and is_attr_of(e.func, var, meth) and not e.args:
        return fact.polarity
    return None


def has_fact(facts, pred, polarity):
    for f in facts:
        p = pred(f)
        if p is not None and p == polarity:
            return True
    return False


def fact_reads_key(fact, key):
    """fact's expression reads run-state key `key`"""
    return any(k == key for (_, k) in keys_read(fact.expr)) if isinstance(fact.expr, ast.AST) else False


def fmt_facts(facts):
    return [repr(f) for f in facts]


def enclosing_stmt(node):
    cur = node
    while cur is not None and not isinstance(cur, ast.stmt):
        cur = getattr(cur, '_parent', None)
    return cur


def parent_chain(node):
    cur = getattr(node, '_parent', None)
    while cur is not None:
        yield cur
        cur = getattr(cur, '_parent', None)


def is_empty_list(e):
    if isinstance(e, ast.List) and not e.elts:
        return True
    if isinstance(e, ast.Call) and is_name(e.func, 'list') and not e.args and not e.keywords:
        return True
    return False


def is_empty_container(e):
    if is_empty_list(e):
        return True
    if isinstance(e, ast.Dict) and not e.keys:
        return True
    if isinstance(e, ast.Call) and isinstance(e.func, ast.Name) and e.func.id in ('dict', 'set', 'OrderedDict', 'list') and not e.args and not e.keywords:
        return True
    if isinstance(e, ast.Call) and isinstance(e.func, ast.Attribute) and e.func.attr in ('OrderedDict',) and not e.args and not e.keywords:
        return True
    return False


def field_ops(fnode, recv, attr):
    """operations on field recv.attr inside a function body:
    [(kind, ast_stmt_or_call, value)] with kind in reset/grow/store/del/mutate/read"""
    out = []
    target = recv + '.' + attr
    for n in ast.walk(fnode):
        if isinstance(n, ast.Assign):
            for t in n.targets:
                for tt in ([t] if not isinstance(t, (ast.Tuple, ast.List)) else t.elts):
                    if field_name(tt, recv) == target:
                        out.append(('reset' if is_empty_container(n.value) or (isinstance(n.value, ast.Constant) and n.value.value is None) else 'store', n, n.value))
                    elif isinstance(tt, ast.Subscript) and field_name(tt.value, recv) == target:
                        out.append(('grow', n, n.value))
        elif isinstance(n, ast.AugAssign):
            if field_name(n.target, recv) == target:
                out.append(('grow' if isinstance(n.op, ast.Add) else 'store', n, n.value))
        elif isinstance(n, ast.Delete):
            for t in n.targets:
                if field_name(t, recv) == target:
                    out.append(('del', n, None))
        elif isinstance(n, ast.Call) and isinstance(n.func, ast.Attribute) and field_name(n.func.value, recv) == target:
            m = n.func.attr
            if m == 'clear':
                out.append(('reset', n, None))
            elif m in ('append', 'extend', 'add', 'insert', 'update', 'setdefault'):
                out.append(('grow', n, n.args[-1] if n.args else None))
            elif m in ('pop', 'remove', 'discard', 'sort', 'reverse', 'popitem'):
                out.append(('mutate', n, None))
    return out


def predicate_method_body(f, call):
    """the expression a call `self.m()` stands for when m is a method of the same class whose whole body is `return <expr>` over the same
    receiver name (a predicate extracted into a method); None otherwise"""
    if f is None or getattr(f, 'cls', None) is None or not isinstance(call, ast.Call) or call.args or call.keywords:
        return None
    fn = call.func
    a = f.node.args.posonlyargs + f.node.args.args
    if not (isinstance(fn, ast.Attribute) and a and is_name(fn.value, a[0].arg)):
        return None
    m = f.cls.methods.get(fn.attr)
    if m is None or m.node.decorator_list:
        return None
    ma = m.node.args.posonlyargs + m.node.args.args
    if len(ma) != 1 or ma[0].arg != a[0].arg or m.node.args.vararg or m.node.args.kwarg or m.node.args.kwonlyargs:
        return None
    body = [st for st in m.node.body if not (isinstance(st, ast.Expr) and isinstance(st.value, ast.Constant))]
    if len(body) == 1 and isinstance(body[0], ast.Return) and body[0].value is not None:
        v = body[0].value
        if not any(isinstance(x, (ast.Call,)) and isinstance(x.func, ast.Attribute) and x.func.attr == fn.attr for x in ast.walk(v)):
            return v
    return None


class BoolEval:
    """L6a: truth tables of boolean expressions over named atoms."""

    def __init__(self, atom_of, resolve_name=None, host=None):
        self.atom_of = atom_of            # expr -> (atom_name, polarity) | None
        self.resolve_name = resolve_name  # Name -> expr | None
        self.host = host                  # function the expressions live in (lets `self.pred()` be seen through)

    def eval(self, e, val, depth=0):
        if depth > 12:
            raise AnalysisError('boolean expression too deep')
        a = self.atom_of(e)
        if a is not None:
            name, pol = a
            return val[name] == pol
        if isinstance(e, ast.Constant) and isinstance(e.value, bool):
            return e.value
        if isinstance(e, ast.UnaryOp) and isinstance(e.op, ast.Not):
            return not self.eval(e.operand, val, depth + 1)
        if isinstance(e, ast.BoolOp):
            vs = [self.eval(v, val, depth + 1) for v in e.values]
            return all(vs) if isinstance(e.op, ast.And) else any(vs)
        if isinstance(e, ast.Call) and is_name(e.func, 'bool') and len(e.args) == 1:
            return self.eval(e.args[0], val, depth + 1)
        if isinstance(e, ast.IfExp):
            return self.eval(e.body, val, depth + 1) if self.eval(e.test, val, depth + 1) else self.eval(e.orelse, val, depth + 1)
        if isinstance(e, ast.Name) and self.resolve_name is not None:
            r = self.resolve_name(e)
            if r is not None:
                return self.eval(r, val, depth + 1)
        if isinstance(e, ast.Call) and self.host is not None:
            r = predicate_method_body(self.host, e)
            if r is not None:
                return self.eval(r, val, depth + 1)
        if isinstance(e, ast.Compare) and len(e.ops) == 1 and isinstance(e.ops[0], (ast.Eq, ast.NotEq, ast.Is, ast.IsNot)):
            # comparison of two boolean sub-expressions
            try:
                l = self.eval(e.left, val, depth + 1)
                r = self.eval(e.comparators[0], val, depth + 1)
                eq = isinstance(e.ops[0], (ast.Eq, ast.Is))
                return (l == r) == eq
            except AnalysisError:
                pass
        raise AnalysisError('unrecognised boolean atom: %s' % ast.unparse(e))


def single_def_value(rd, node, name):
    """value expr when exactly one plain assignment of `name` reaches node"""
    defs = rd.at(node, name)
    if len(defs) == 1 and defs[0].kind == 'assign' and isinstance(defs[0].value, ast.AST):
        return defs[0].value, defs[0]
    return None, None


def stmt_nodes(g, pred):
    return [n for n in g.nodes if n.kind == 'stmt' and pred(n.ast)]


def norm_cmp_text(e):
    return ' '.join(ast.unparse(e).split())


# ---------------------------------------------------------------------------
# shape of calls into the `re` module: a flag constant in a count / maxsplit slot
RE_SIGNATURES = {
    # name -> (positional parameter names)
    'sub': ('pattern', 'repl', 'string', 'count', 'flags'),
    'subn': ('pattern', 'repl', 'string', 'count', 'flags'),
    'split': ('pattern', 'string', 'maxsplit', 'flags'),
    'match': ('pattern', 'string', 'flags'),
    'search': ('pattern', 'string', 'flags'),
    'fullmatch': ('pattern', 'string', 'flags'),
    'findall': ('pattern', 'string', 'flags'),
    'finditer': ('pattern', 'string', 'flags'),
    'compile': ('pattern', 'flags'),
}
RE_FLAG_NAMES = {'A', 'ASCII', 'DEBUG', 'I', 'IGNORECASE', 'L', 'LOCALE', 'M', 'MULTILINE', 'S', 'DOTALL', 'X', 'VERBOSE', 'U', 'UNICODE', 'NOFLAG'}


def is_re_flag_expr(e):
    if isinstance(e, ast.Attribute) and isinstance(e.value, ast.Name) and e.value.id == 're' and e.attr in RE_FLAG_NAMES:
        return True
    if isinstance(e, ast.BinOp) and isinstance(e.op, (ast.BitOr, ast.Add)):
        return is_re_flag_expr(e.left) and is_re_flag_expr(e.right)
    return False


def re_call_problem(call):
    """None, or a description when a call `re.<f>(...)` binds a flag constant to a
    parameter that is not `flags` (classic: re.split(p, s, re.MULTILINE) sets maxsplit=8),
    or gives count / maxsplit a non-zero constant"""
    f = call.func
    if not (isinstance(f, ast.Attribute) and isinstance(f.value, ast.Name) and f.value.id == 're' and f.attr in RE_SIGNATURES):
        return None
    sig = RE_SIGNATURES[f.attr]
    bound = {}
    for i, a in enumerate(call.args):
        if isinstance(a, ast.Starred) or i >= len(sig):
            return None
        bound[sig[i]] = a
    for k in call.keywords:
        if k.arg is not None:
            bound[k.arg] = k.value
    for name, a in bound.items():
        if name in ('count', 'maxsplit'):
            if is_re_flag_expr(a):
                return 're.%s: the flag %s is bound to `%s` (it limits the number of %s to %s instead of setting a flag)' % (
                    f.attr, ast.unparse(a), name, 'substitutions' if name == 'count' else 'splits', 'the numeric value of the flag')
            if isinstance(a, ast.Constant) and isinstance(a.value, int) and a.value != 0:
                return 're.%s: %s=%d limits the number of %s' % (f.attr, name, a.value, 'substitutions' if name == 'count' else 'splits')
    return None


def re_calls(tree):
    return [n for n in ast.walk(tree) if isinstance(n, ast.Call) and isinstance(n.func, ast.Attribute) and isinstance(n.func.value, ast.Name) and
            n.func.value.id == 're' and n.func.attr in RE_SIGNATURES]


def run_as(ctx, fn, old, new):
    """run rule function `fn` (written for rule id `old`) with its obligations recorded under rule id `new`: a
    structural clause that is a necessary condition of two properties is decided once and reported under both"""
    rep = ctx.rep
    orig_ob, orig_floor = rep.ob, rep.floor

    def ob(rule, *a, **k):
        return orig_ob(new + rule[len(old):] if rule.startswith(old) else rule, *a, **k)

    def floor(rule, *a, **k):
        return orig_floor(new + rule[len(old):] if rule.startswith(old) else rule, *a, **k)
    rep.ob, rep.floor = ob, floor
    try:
        fn(ctx)
    finally:
        rep.ob, rep.floor = orig_ob, orig_floor


def mutations_while_iterating(fnode):
    """[(for stmt, mutating call / delete stmt)] where the body of `for x in L:` changes the length of the very list L it iterates
    (L a plain name, not a copy made in the loop header): the element following a removed one is skipped, an inserted one is visited twice"""
    out = []
    for loop in ast.walk(fnode):
        if not isinstance(loop, ast.For) or not isinstance(loop.iter, ast.Name):
            continue
        L = loop.iter.id
        for st in loop.body:
            for x in ast.walk(st):
                if isinstance(x, ast.Call) and isinstance(x.func, ast.Attribute) and is_name(x.func.value, L) and x.func.attr in ('remove', 'pop', 'insert', 'append', 'extend', 'clear'):
                    out.append((loop, x))
                if isinstance(x, ast.Delete) and any(isinstance(t, ast.Subscript) and is_name(t.value, L) for t in x.targets):
                    out.append((loop, x))
    return out


# ---------------------------------------------------------------------------
def folded_flags(ctx, f, call, pos):
    """re flags of a call into `re` (keyword `flags` or positional slot `pos`), folded; 0 when absent"""
    from .. import consts
    fl = next((k.value for k in call.keywords if k.arg == 'flags'), call.args[pos] if len(call.args) > pos else None)
    if fl is None:
        return 0
    try:
        v = consts.Folder(ctx.prog).fold(f.module, fl, None, f)
    except consts.NotConstant as ex:
        raise AnalysisError('regex flags not foldable: %s' % ex)
    return int(v)


def fold_text(ctx, f, expr, env=None):
    """constant string an expression of function f denotes (module constants, single-assignment locals, +, join, format, re.escape)"""
    from .. import consts
    try:
        v = consts.Folder(ctx.prog).fold(f.module, expr, env, f)
    except consts.NotConstant as ex:
        raise AnalysisError('pattern not foldable in %s: %s (%s)' % (f.qualname, ast.unparse(expr)[:60], ex))
    if not isinstance(v, str):
        raise AnalysisError('pattern in %s does not fold to text: %s' % (f.qualname, ast.unparse(expr)[:60]))
    return v


def falsy_override_sites(func):
    """[(node, param, expr)] where an optional argument of `func` (default None) is merged with a configured value by TRUTHINESS
    (`p or self.config[...]`, `self.config[...] if not p else p`): an explicit False / 0 / '' of the caller is overridden by the configuration"""
    out = []
    a = func.node.args
    pos = a.posonlyargs + a.args
    defaults = dict(zip([x.arg for x in pos[len(pos) - len(a.defaults):]], a.defaults))
    defaults.update({k.arg: d for k, d in zip(a.kwonlyargs, a.kw_defaults) if d is not None})
    optional = {k for k, d in defaults.items() if isinstance(d, ast.Constant) and d.value is None}

    def reads_config(e):
        return any(isinstance(x, ast.Attribute) and x.attr == 'config' for x in ast.walk(e))
    for x in ast.walk(func.node):
        if isinstance(x, ast.BoolOp) and isinstance(x.op, ast.Or) and isinstance(x.values[0], ast.Name) and x.values[0].id in optional and any(reads_config(v) for v in x.values[1:]):
            out.append((x, x.values[0].id, x))
        if isinstance(x, ast.IfExp):
            t = x.test
            neg = isinstance(t, ast.UnaryOp) and isinstance(t.op, ast.Not)
            tn = t.operand if neg else t
            if isinstance(tn, ast.Name) and tn.id in optional and (reads_config(x.body) or reads_config(x.orelse)):
                out.append((x, tn.id, x))
    return out


# ---------------------------------------------------------------------------
# names that may be read before assignment on a path the two correlations of dataflow.undefined_witness cannot exclude, each confirmed by reading
ASSIGNED_BY_ARGUMENT = {
    ('xdoctest.parser.DoctestParser.parse', 'failpoint'): 'assigned by the None-test chain of the wrapping handler; that one of the tests holds is what C14.R1 decides (an exceptional edge out of the i-th phase leaves the i-th result None)',
}


def definite_assignment(ctx, rule, modules, floor):
    """DEFINITE-ASSIGNMENT: in every function of the given modules no local variable is read on a feasible path on which it was never assigned
    (UnboundLocalError is an exception no handler of the package expects).  Decided by a must-assigned dataflow over normal and exceptional
    edges; each candidate is then confirmed by a path search that respects repeated tests and constant flags, and reported with that path."""
    from ..dataflow import possibly_undefined, undefined_witness
    rep = ctx.rep
    n_funcs = n_loads = 0
    for f in ctx.prog.funcs.values():
        if f.module.name not in modules:
            continue
        g = ctx.cfg(f)
        rd = ctx.rd(f)
        n_funcs += 1
        cands = possibly_undefined(g, rd)
        seen = set()
        dom = ctx.dom(g, g.entry) if cands else None
        for (node, nm) in cands:
            if (f.qualname, nm.id) in ASSIGNED_BY_ARGUMENT or (nm.id, id(node)) in seen:
                continue
            # diagnostic output under a debug switch is no part of any property (a loop variable printed after the loop, ...)
            if dom is not None and dom.has(node) and any(fa.polarity is True and 'DEBUG' in fa.text for fa in graph_guard_facts(dom, node)):
                continue
            seen.add((nm.id, id(node)))
            w = undefined_witness(g, rd, node, nm.id, load=nm)
            if w is None:
                continue
            if w == 'limit':
                raise AnalysisError('%s: the search for a path on which `%s` is unassigned in %s was cut off' % (rule, nm.id, f.qualname))
            n_loads += 1
            rep.ob(rule, ctx.loc(f, nm), 'read of `%s` in %s' % (nm.id, f.name), False,
                   'the local `%s` is read here, but there is a path from the entry of %s on which no assignment to it was executed: UnboundLocalError at run time, raised '
                   'where no handler expects it' % (nm.id, f.name), witness=graph_fmt(w, f.module.relpath), anchor=f.qualname)
    rep.ob(rule, 'src/%s:1' % sorted(modules)[0].replace('.', '/') + '.py', 'locals are assigned before use (%d functions)' % n_funcs, True,
           'no feasible path reads an unassigned local (%d documented exceptions)' % len(ASSIGNED_BY_ARGUMENT), anchor=sorted(modules)[0])
    rep.floor(rule, 'functions analysed for definite assignment', n_funcs, floor)


def graph_guard_facts(dom, node):
    from .. import graph
    return graph.guard_facts(dom, node)


def graph_fmt(path, relpath):
    from .. import graph
    try:
        return graph.fmt_path(path, relpath)
    except Exception:
        return None
