"""
C03 -- exceptions are never swallowed; only a matching expected traceback passes.
"""
import ast
import re

from ..context import need
from ..loader import AnalysisError
from .. import graph, consts
from ..roles import run_roles, RUN, node_calls
from .common import (fact_part_attr, has_fact, fmt_facts, is_name, fact_reads_key)

CE = 'xdoctest.checker.check_exception'

EXPLANATION = (
    'Static rule conformance on the exec handler of DocTest.run and on checker.check_exception: '
    'R1 the handler that catches exceptions of doctest code completes normally only through the exception checker '
    '(every other path re-raises); R2 in check_exception the branch "want is not a traceback block" cannot reach a normal '
    'return, every normal return is edge-dominated by a true comparison flag that flows from check_output, and the failed-flag '
    'branch raises the got/want error; R3 detail stripping is edge-dominated by IGNORE_EXCEPTION_DETAIL and a failed first '
    'comparison and applied to both sides; R4 after an accepted exception the loop continues without recording a failure; '
    'R5 shape facts of the traceback regex. Which message texts match is not decided.'
    ' R1b inside the exec handler the exception checker is consulted exactly when the part has a want (no further flag) and is handed the LAST item of traceback.format_exception_only. R5 also: the stack group of the traceback regex is lazy. R6 also: a first-dot cut is reported. R7 = C05.R11 (the run state is forwarded to every comparison).')
DECIDES = ['ESCAPE(exec handler)', 'ESCAPE/GUARD-DOM(check_exception)', 'GUARD-DOM(_strip_exception_details)', 'MUST-PASS continuation', 'REGEX-FACT(_EXCEPTION_RE)']
NOT_DECIDED = ['which texts the traceback regex accepts beyond its shape', 'message comparison results']


def run(ctx):
    for fn in (r1_exec_handler, r1b_acceptance_depends_on_the_want_only, r2_check_exception, r3_detail_stripping, r4_continuation, r5_regex_shape, r6_strip_details_bounds, r7_run_state_is_forwarded):
        ctx.rep.rule(fn, ctx)


def _handler_body_ids(g, hnode):
    h = hnode.ast
    ids = set()
    for n in g.nodes:
        if n is hnode:
            ids.add(id(n))
            continue
        for fr in n.frames:
            if fr.kind == 'try' and getattr(fr, 'phase', None) == 'handler' and fr.handler is h:
                ids.add(id(n))
                break
    return ids


def exec_handlers(rr):
    """handler nodes that receive exceptions of class Exception from exec sites"""
    hs = []
    for (n, c) in rr.exec_sites:
        for (t, tok) in n.esucc():
            # follow cleanup nodes (with_exit) to the first handler
            work = [t]
            seen = set()
            while work:
                x = work.pop()
                if id(x) in seen:
                    continue
                seen.add(id(x))
                if x.kind == 'handler':
                    if tok == ('sub', 'Exception') and x not in hs:
                        hs.append(x)
                    continue
                if x.kind in ('with_exit', 'finally_enter') or x.dup:
                    work.extend(y for (y, k, tk) in x.succ if tk == tok)
    return hs


def r1_exec_handler(ctx):
    rr = run_roles(ctx)
    rep = ctx.rep
    hs = exec_handlers(rr)
    rep.floor('C03.R1', 'handlers catching exceptions of doctest code', len(hs), 1)
    check_nodes = [n for (n, _) in rr.check_exc_sites]
    for h in hs:
        body = _handler_body_ids(rr.g, h)
        # a normal completion = a normal edge leaving the handler body
        wit = graph.path([h], lambda x: id(x) not in body, efilter=graph.normal_only, avoid=check_nodes)
        holds = wit is None
        rep.ob('C03.R1', ctx.loc(rr.f, h.ast), 'except %s (handler of the exec sites)' % (ctx.src(h.ast.type) if h.ast.type else ''), holds,
               'every normal completion of the handler passes the exception checker; all other paths re-raise' if holds else
               'the handler can complete normally without consulting the want: the exception is swallowed',
               witness=None if holds else graph.fmt_path(wit, rr.f.module.relpath), anchor=RUN)
        # the tokens leaving the handler on the other paths are the live exception (bare raise)
        leaving = set()
        for n in rr.g.nodes:
            if id(n) in body and n.kind == 'stmt' and isinstance(n.ast, ast.Raise) and n.ast.exc is None:
                leaving.add(n)
        rep.ob('C03.R1', ctx.loc(rr.f, h.ast), 'bare raise inside the exec handler', bool(leaving),
               '%d bare re-raise statement(s) in the handler' % len(leaving) if leaving else 'handler has no bare re-raise: a raising part without want cannot fail with its own exception',
               nontrivial=False, anchor=RUN)


def r1b_acceptance_depends_on_the_want_only(ctx):
    """inside the handler of the exec sites the exception checker is consulted whenever the part has a want -- under no further condition (a raising
    part whose traceback want matches is accepted whatever other directives are active) -- and what it is given is the LAST line of
    traceback.format_exception_only, the `Type: message` line (for a SyntaxError the earlier lines are the file / source / caret display)"""
    rr = run_roles(ctx)
    rep = ctx.rep
    hs = exec_handlers(rr)
    n = 0
    for h in hs:
        body = _handler_body_ids(rr.g, h)
        dom = ctx.dom(rr.g, h, tag='handler')
        for (cn, c) in rr.check_exc_sites:
            if id(cn) not in body:
                continue
            n += 1
            facts = [fa for fa in graph.guard_facts(dom, cn) if fa.polarity in (True, False) and isinstance(fa.expr, ast.AST)]
            extra = [fa for fa in facts if not (fa.polarity is True and isinstance(fa.expr, ast.Attribute) and fa.expr.attr == 'want')]
            has_want = any(fa.polarity is True and isinstance(fa.expr, ast.Attribute) and fa.expr.attr == 'want' for fa in facts)
            unknown = [fa for fa in extra if not any(isinstance(x, ast.Name) and x.id in ('runstate', 'self', 'on_error', 'verbose') for x in ast.walk(fa.expr))]
            need(not unknown, 'C03.R1b: the exception checker is consulted under a condition that was not recognised: %s' % fmt_facts(unknown))
            ok = has_want and not extra
            rep.ob('C03.R1b', ctx.loc(rr.f, c), ctx.src(c, 80), ok,
                   'consulted exactly when the part has a want' if ok else
                   'the expected-exception check also depends on %s: while that holds, a raising part whose traceback want matches is re-raised and the doctest fails' % fmt_facts(extra), anchor=RUN)
            # the text handed to the checker
            a0 = c.args[0] if c.args else None
            src = a0
            if isinstance(a0, ast.Name):
                ds = rr.rd.at(cn, a0.id)
                src = ds[0].value if len(ds) == 1 and isinstance(ds[0].value, ast.AST) else None
            if isinstance(src, ast.Subscript) and isinstance(src.value, ast.Name):
                # the list of lines held in a local first
                ds = rr.rd.at(cn, src.value.id)
                if len(ds) == 1 and isinstance(ds[0].value, ast.Call):
                    src = ast.copy_location(ast.Subscript(value=ds[0].value, slice=src.slice, ctx=ast.Load()), src)
            need(isinstance(src, ast.Subscript) and isinstance(src.value, ast.Call) and ast.unparse(src.value.func).endswith('format_exception_only'),
                 'C03.R1b: the raised text handed to check_exception is not an item of traceback.format_exception_only(...)')
            idx = src.slice
            last = isinstance(idx, ast.UnaryOp) and isinstance(idx.op, ast.USub) and isinstance(idx.operand, ast.Constant) and idx.operand.value == 1
            need(last or isinstance(idx, ast.Constant), 'C03.R1b: index of the format_exception_only item is not a constant')
            rep.ob('C03.R1b', ctx.loc(rr.f, src), ctx.src(src, 80), last,
                   'the `Type: message` line (always the last item)' if last else
                   'item %s of format_exception_only is compared with the want: for SyntaxError / IndentationError the list starts with the `File "...", line N` display, '
                   'so a correct traceback want fails and a want that ends in that display line hides the error' % ctx.src(idx), anchor=RUN)
    rep.floor('C03.R1b', 'exception checks inside the exec handler', n, 1)


def r2_check_exception(ctx):
    rep = ctx.rep
    f = ctx.func(CE)
    g = ctx.cfg(f)
    rd = ctx.rd(f)
    dom = ctx.dom(g, g.entry)
    need(dom.has(g.exit), 'C03.R2: check_exception has no normal exit')
    facts = graph.guard_facts(dom, g.exit)

    def flows_from(node, expr, callee_q):
        if not isinstance(expr, ast.Name):
            return False
        defs = rd.at(node, expr.id)
        if not defs:
            return False
        for d in defs:
            v = d.value
            if not (isinstance(v, ast.Call) and _resolves_to(ctx, f, v, callee_q)):
                return False
        return True

    # (a) normal exit dominated by `<v> is None` false, v <- extract_exc_want(...)
    ok_a = False
    for fa in facts:
        e = fa.expr
        if isinstance(e, ast.Compare) and len(e.ops) == 1 and isinstance(e.ops[0], ast.Is) and isinstance(e.comparators[0], ast.Constant) and e.comparators[0].value is None:
            if fa.polarity is False and flows_from(fa.origin.attrs['test'], e.left, 'xdoctest.checker.extract_exc_want'):
                ok_a = True
                a_branch = fa.origin
    rep.ob('C03.R2a', ctx.loc(f, f.node), 'normal return requires a traceback-shaped want', ok_a,
           'every normal return is edge-dominated by "extract_exc_want(want) is not None"' if ok_a else
           'check_exception can return normally although the want is not a traceback block (guards of the exit: %s): a non-traceback want hides the exception' % fmt_facts(facts),
           anchor=CE)
    if ok_a:
        t = a_branch.attrs['test']
        tb = [b for b in t.nsucc() if b.kind == 'branch' and b is not a_branch][0]
        reach = graph.reachable([tb])
        toks = set()
        for n in reach:
            for (x, k, tok) in n.succ:
                if x is g.raise_exit and n.kind == 'stmt' and isinstance(n.ast, ast.Raise):
                    toks.add(tok)
        ok = g.exit not in reach and toks == {('live',)}
        rep.ob('C03.R2a', ctx.loc(f, t.ast), 'if %s: re-raise' % ctx.src(t.ast), ok,
               'the non-traceback branch ends in a bare raise of the live exception' if ok else
               'the non-traceback branch does not re-raise the live exception (leaves with %s)' % sorted(toks), anchor=CE)

    # (b) every normal exit is edge-dominated by a true flag that flows from check_output (one common exit, or several early returns)
    exits = [p_ for p_ in g.nodes if any(t is g.exit and k == 'n' for (t, k, tok) in p_.succ)]
    need(exits, 'C03.R2: check_exception has no normal exit')
    bad_exit = None
    flag_tests = []
    for p_ in exits:
        fs_ = graph.guard_facts(dom, p_)
        ok_p = False
        for fa in fs_:
            if isinstance(fa.expr, ast.Name) and fa.polarity is True and fa.origin is not None and flows_from(fa.origin.attrs['test'], fa.expr, 'xdoctest.checker.check_output'):
                ok_p = True
                flag_tests.append(fa.origin)
        if not ok_p:
            bad_exit = (p_, fs_)
    ok_b = bad_exit is None
    rep.ob('C03.R2b', ctx.loc(f, f.node), 'normal return requires a successful comparison', ok_b,
           'every normal return is edge-dominated by a true flag whose every reaching definition is check_output(...)' if ok_b else
           'check_exception can return normally without a successful comparison (guards of the exit at line %d: %s)' % (bad_exit[0].lineno, fmt_facts(bad_exit[1])), anchor=CE)
    # (c) whatever does not return raises the got/want error: the only explicit raise classes are GotWantException (plus the bare re-raise of (a))
    if ok_b:
        toks = set()
        for n in g.nodes:
            if n.kind == 'stmt' and isinstance(n.ast, ast.Raise) and n.ast.exc is not None and not n.dup:
                toks |= {tok for (x, k, tok) in n.succ if k == 'e'}
        ok = toks == {('exact', 'xdoctest.checker.GotWantException')}
        rep.ob('C03.R2c', ctx.loc(f, f.node), 'failed comparison -> raise GotWantException', ok,
               'the only explicit raise is the got/want error (a path that does not return raises it)' if ok else 'explicit raises of %s' % sorted(toks), anchor=CE)


def _resolves_to(ctx, f, call, qual):
    r = ctx.res.resolve_call(f, call)
    return r[0] == 'repo' and any(x.qualname == qual for x in r[1])


def r3_detail_stripping(ctx):
    rep = ctx.rep
    SQ = 'xdoctest.checker._strip_exception_details'
    sites = []
    for func in ctx.prog.funcs.values():
        if func.module.name == 'xdoctest._tokenize':
            continue
        from ..resolve import walk_scope
        for n in walk_scope(func.node):
            if isinstance(n, ast.Call) and _resolves_to(ctx, func, n, SQ):
                sites.append((func, n))
    rep.floor('C03.R3', 'calls of _strip_exception_details', len(sites), 1)
    f = ctx.func(CE)
    g = ctx.cfg(f)
    rd = ctx.rd(f)
    dom = ctx.dom(g, g.entry)
    stripped_roles = set()
    for (func, c) in sites:
        if func is not f:
            rep.ob('C03.R3', ctx.loc(func, c), ctx.src(c), False,
                   'exception details are stripped outside check_exception, where the IGNORE_EXCEPTION_DETAIL guard is not in force', anchor=func.qualname)
            continue
        for n in g.nodes_containing(c):
            facts = graph.guard_facts(dom, n)
            g1 = any(fact_reads_key(fa, 'IGNORE_EXCEPTION_DETAIL') and fa.polarity is True for fa in facts)
            g2 = any(isinstance(fa.expr, ast.Name) and fa.polarity is False and _flag_from_check_output(ctx, f, rd, fa) for fa in facts)
            ok = g1 and g2
            rep.ob('C03.R3', ctx.loc(f, c), ctx.src(c), ok,
                   'edge-dominated by IGNORE_EXCEPTION_DETAIL true and a failed first comparison' if ok else
                   'detail stripping is not restricted to IGNORE_EXCEPTION_DETAIL / a failed comparison (guards: %s)' % fmt_facts(facts), anchor=CE)
            a0 = c.args[0] if c.args else None
            if isinstance(a0, ast.Name):
                role = _value_role(ctx, f, rd, n, a0)
                stripped_roles.add(role)
    # the stripped texts are compared and that verdict replaces the first one
    cmp_ok = False
    for n in g.nodes:
        if n.dup or n.kind not in ('stmt', 'test') or not isinstance(n.ast, ast.AST):
            continue
        for c in node_calls(n):
            if not (_resolves_to(ctx, f, c, 'xdoctest.checker.check_output') and len(c.args) >= 2):
                continue
            def stripped(a):
                if isinstance(a, ast.Call):
                    return _resolves_to(ctx, f, a, SQ)
                if isinstance(a, ast.Name):
                    vs = [d.value for d in rd.at(n, a.id)]
                    return bool(vs) and all(isinstance(v, ast.Call) and _resolves_to(ctx, f, v, SQ) for v in vs)
                return False
            if stripped(c.args[0]) and stripped(c.args[1]):
                # the verdict is kept: assigned, returned or tested
                cmp_ok = n.kind == 'test' or isinstance(n.ast, (ast.Assign, ast.Return, ast.AugAssign))
    rep.ob('C03.R3', ctx.loc(f, f.node), 'stripped got is compared with stripped want', cmp_ok,
           'the second comparison overwrites the verdict of the first' if cmp_ok else
           'the stripped texts are never compared (or the result is dropped): IGNORE_EXCEPTION_DETAIL has no effect, a traceback want that differs only in the message still fails', anchor=CE)
    ok = {'got', 'want'} <= stripped_roles
    # a stripped text whose origin is neither the raised message nor the wanted message is not a verdict about either side
    need(ok or stripped_roles <= {'got', 'want'}, 'C03.R3: the origin of a stripped text was not recognised (roles: %s)' % sorted(stripped_roles))
    rep.ob('C03.R3', ctx.loc(f, f.node), 'both sides stripped', ok,
           'stripping is applied to the raised message and to the wanted message' if ok else
           'detail stripping is applied to %s only' % sorted(stripped_roles), anchor=CE)


def _flag_from_check_output(ctx, f, rd, fa):
    defs = rd.at(fa.origin.attrs['test'], fa.expr.id)
    return bool(defs) and all(isinstance(d.value, ast.Call) and _resolves_to(ctx, f, d.value, 'xdoctest.checker.check_output') for d in defs)


def _value_role(ctx, f, rd, node, name):
    """'got' if the name is the exc_got parameter, 'want' if it flows from extract_exc_want"""
    defs = rd.at(node, name.id)
    roles = set()
    params = [a.arg for a in f.node.args.args]
    for d in defs:
        if d.kind == 'param':
            roles.add('got' if params.index(d.name) == 0 else 'param:' + d.name)
        elif isinstance(d.value, ast.Call) and _resolves_to(ctx, f, d.value, 'xdoctest.checker.extract_exc_want'):
            roles.add('want')
        else:
            roles.add('other')
    return roles.pop() if len(roles) == 1 else 'mixed'


def r4_continuation(ctx):
    rr = run_roles(ctx)
    rep = ctx.rep
    rep.floor('C03.R4', 'exception checker call sites in RUN', len(rr.check_exc_sites), 1)
    for (n, c) in rr.check_exc_sites:
        p = graph.path(n.nsucc(), lambda x: x is rr.loop, efilter=graph.normal_only, avoid=rr.fail_stores)
        rep.ob('C03.R4', ctx.loc(rr.f, c), ctx.src(c) + ' -> next part', p is not None,
               'after an accepted exception the loop reaches its back edge without recording a failure' if p is not None else
               'after an accepted exception no path continues with the following statements', anchor=RUN)
        # and the accepted exception is not recorded on the way
        if p is not None:
            allp = graph.reachable(n.nsucc(), efilter=graph.normal_only, stop=[rr.loop])
            bad = [x for x in allp if any(x is fs for fs in rr.fail_stores)]
            rep.ob('C03.R4', ctx.loc(rr.f, c), 'no fail store on the normal continuation', not bad,
                   'normal continuation meets no fail store' if not bad else 'a failure is recorded although the expected exception matched', anchor=RUN)


def r5_regex_shape(ctx):
    rep = ctx.rep
    fold = consts.Folder(ctx.prog)
    rx = fold.module_const('xdoctest.checker', '_EXCEPTION_RE')
    need(isinstance(rx, consts.Regex), 'C03.R5: _EXCEPTION_RE is not a compiled regex literal')
    mod = ctx.prog.module('xdoctest.checker')
    where = ctx.mloc(mod, mod.assigns['_EXCEPTION_RE'])
    order = sorted(rx.groups, key=lambda k: rx.groups[k])
    ok = order[:3] == ['hdr', 'stack', 'msg'] if len(order) >= 3 else False
    rep.ob('C03.R5', where, '_EXCEPTION_RE groups', ok, 'named groups in order: %s' % order, nontrivial=False, anchor='xdoctest.checker._EXCEPTION_RE')
    ok_flags = bool(rx.flags & re.MULTILINE) and bool(rx.flags & re.DOTALL)
    rep.ob('C03.R5', where, '_EXCEPTION_RE flags', ok_flags, 'MULTILINE and DOTALL set: %s' % ok_flags, nontrivial=False, anchor='xdoctest.checker._EXCEPTION_RE')
    items = rx.items
    # hdr: preceded by a line-start anchor and starting with the literal "Traceback ("
    hdr_ok = msg_ok = False
    stack_lazy = None
    for i, it in enumerate(items):
        sp = consts.subpattern(it)
        if sp is None:
            continue
        num, inner = sp
        prev = items[i - 1] if i > 0 else None
        at_line_start = prev is not None and consts.is_at(prev, consts.AT_BEGINNING, consts.AT_BEGINNING_LINE)
        if num == rx.groups.get('hdr'):
            hdr_ok = at_line_start and consts.literal_prefix(inner).startswith('Traceback (')
        if num == rx.groups.get('stack'):
            # the stack group must be LAZY: the message starts at the first un-indented line after the header, not at the last one
            rp = consts.repeat_of(inner[0]) if len(inner) == 1 else None
            stack_lazy = rp is not None and rp[3] == consts.sre_c.MIN_REPEAT
        if num == rx.groups.get('msg'):
            first = inner[0] if inner else None
            rp = consts.repeat_of(first) if first else None
            if rp and rp[0] >= 1 and len(rp[2]) == 1:
                cs = consts.item_charset(rp[2][0])
                msg_ok = at_line_start and cs is not None and ord('A') in cs and ord(' ') not in cs
    rep.ob('C03.R5', where, 'hdr group', hdr_ok, 'header anchored at a line start and opening with the literal "Traceback ("' if hdr_ok else
           'a want that is not a traceback block can match the header group', anchor='xdoctest.checker._EXCEPTION_RE')
    need(stack_lazy is not None, 'C03.R5: the stack group of _EXCEPTION_RE is not a single repeat')
    rep.ob('C03.R5', where, 'stack group is lazy', stack_lazy,
           'the stack is absorbed only up to the FIRST line that starts with a word character: the message keeps all its lines' if stack_lazy else
           'the stack group is greedy: with a message of several un-indented lines the wanted message starts at the LAST such line, so exact multi-line wants fail '
           'and a different exception whose text equals that last line is accepted', anchor='xdoctest.checker._EXCEPTION_RE')
    rep.ob('C03.R5', where, 'msg group', msg_ok, 'message group anchored at a line start and opening with word characters' if msg_ok else
           'the message group is no longer anchored at an un-indented line', anchor='xdoctest.checker._EXCEPTION_RE')
    # extract_exc_want returns the msg group of a search with this regex, None otherwise
    f = ctx.func('xdoctest.checker.extract_exc_want')
    uses = [n for n in ast.walk(f.node) if isinstance(n, ast.Call) and isinstance(n.func, ast.Attribute) and is_name(n.func.value, '_EXCEPTION_RE')]
    grp = [n for n in ast.walk(f.node) if isinstance(n, ast.Call) and isinstance(n.func, ast.Attribute) and n.func.attr == 'group' and n.args and isinstance(n.args[0], ast.Constant)]
    # a bound method of the regex kept in a module-level name (`_search = _EXCEPTION_RE.search`) is the same search
    bound = {st.targets[0].id: st.value.attr for st in f.module.tree.body if isinstance(st, ast.Assign) and len(st.targets) == 1 and isinstance(st.targets[0], ast.Name) and
             isinstance(st.value, ast.Attribute) and is_name(st.value.value, '_EXCEPTION_RE')}
    via = [bound[n.func.id] for n in ast.walk(f.node) if isinstance(n, ast.Call) and isinstance(n.func, ast.Name) and n.func.id in bound]
    ok = len(uses) + len(via) >= 1 and all(u.func.attr in ('search', 'match') for u in uses) and all(a in ('search', 'match') for a in via) and \
        any(x.args[0].value == 'msg' for x in grp) and all(x.args[0].value == 'msg' for x in grp)
    rep.ob('C03.R5', ctx.loc(f, f.node), 'extract_exc_want uses _EXCEPTION_RE and group msg', ok,
           'the wanted message is the msg group of the traceback regex' if ok else 'extract_exc_want no longer takes the msg group of _EXCEPTION_RE', anchor=f.qualname)


# ---------------------------------------------------------------------------
def r6_strip_details_bounds(ctx):
    """_strip_exception_details keeps exactly the class name: every narrowing of the window [start:end] is guarded by a
    successful search, later searches are confined to the window found so far (the first line, then the part before the
    first colon), the start skips the last dot, and the result is msg[start:end]."""
    rep = ctx.rep
    q = 'xdoctest.checker._strip_exception_details'
    f = ctx.func(q)
    g = ctx.cfg(f)
    rd = ctx.rd(f)
    dom = ctx.dom(g, g.entry)
    msg = f.node.args.args[0].arg
    searches = []
    for n in g.nodes:
        if n.kind == 'stmt' and isinstance(n.ast, ast.Assign) and isinstance(n.ast.value, ast.Call) and isinstance(n.ast.value.func, ast.Attribute) and \
                n.ast.value.func.attr in ('find', 'rfind', 'index', 'rindex') and is_name(n.ast.value.func.value, msg) and isinstance(n.ast.targets[0], ast.Name):
            c = n.ast.value
            needle = c.args[0].value if c.args and isinstance(c.args[0], ast.Constant) else None
            searches.append((n, c, needle, n.ast.targets[0].id))
    _last_dot_confined(ctx, f, g, rd, q, msg)
    if len(searches) < 3:
        return _strip_details_cut_chain(ctx, f, g, rd, q, msg)
    by = {needle: (n, c, var) for (n, c, needle, var) in searches}
    need({'\n', ':', '.'} <= set(by), 'C03.R6: searches for newline / colon / dot not recognised: %s' % sorted(map(repr, by)))
    # window variables
    rets = [n for n in g.nodes if n.kind == 'stmt' and isinstance(n.ast, ast.Return)]
    need(len(rets) == 1 and isinstance(rets[0].ast.value, ast.Subscript) and isinstance(rets[0].ast.value.slice, ast.Slice), 'C03.R6: result is not a slice of the message')
    sl = rets[0].ast.value.slice
    ok = is_name(rets[0].ast.value.value, msg) and isinstance(sl.lower, ast.Name) and isinstance(sl.upper, ast.Name)
    rep.ob('C03.R6', ctx.loc(f, rets[0].ast), ctx.src(rets[0].ast), ok, 'result is the window msg[start:end]' if ok else 'result is not msg[start:end]', nontrivial=False, anchor=q)
    if not ok:
        return
    start, end = sl.lower.id, sl.upper.id
    # colon and dot searches are confined to [0, end)
    for needle, what in ((':', 'first colon'), ('.', 'last dot')):
        n, c, var = by[needle]
        bounded = len(c.args) >= 3 and is_name(c.args[2], end)
        rep.ob('C03.R6', ctx.loc(f, c), ctx.src(c), bounded,
               'the %s is searched only inside the window found so far' % what if bounded else
               'the search for the %s is not confined to the first line / the part before the colon: a %s inside the message changes the extracted class name' % (what, 'dot' if needle == '.' else 'colon'),
               anchor=q)
    ok = by['.'][1].func.attr in ('rfind', 'rindex') and by[':'][1].func.attr in ('find', 'index') and by['\n'][1].func.attr in ('find', 'index')
    rep.ob('C03.R6', ctx.loc(f, f.node), 'first newline, first colon, last dot', ok, 'search directions as documented' if ok else 'a search direction changed', nontrivial=False, anchor=q)
    # order: newline, colon, dot (each later search sees the narrowed end)
    order = sorted([by['\n'][0], by[':'][0], by['.'][0]], key=lambda x: x.lineno)
    ok = order == [by['\n'][0], by[':'][0], by['.'][0]] and dom.dominates(by['\n'][0], by[':'][0]) and dom.dominates(by[':'][0], by['.'][0])
    rep.ob('C03.R6', ctx.loc(f, f.node), 'searches in the order newline, colon, dot', ok, 'each search runs after the window was narrowed by the previous one' if ok else 'the searches are not ordered newline -> colon -> dot', anchor=q)
    # each search narrows the window
    for needle, what, tgt in (('\n', 'first newline', end), (':', 'first colon', end), ('.', 'last dot', start)):
        n_, c_, var_ = by[needle]
        used = [d for d in rd.defs_of(tgt) if isinstance(d.value, ast.AST) and any(is_name(x, var_) for x in ast.walk(d.value)) and
                any(x is n_ for x in [dd.node for dd in rd.at(d.node, var_)])]
        rep.ob('C03.R6', ctx.loc(f, c_), 'the %s narrows `%s`' % (what, tgt), bool(used),
               'the position found becomes the new bound' if used else
               'the position of the %s is computed but never becomes a bound of the window: the class name keeps %s' %
               (what, {'\n': 'every line of the message', ':': 'the message after the colon', '.': 'its dotted module path'}[needle]), anchor=q)
    # narrowing stores are guarded by the search having succeeded
    for d in rd.defs_of(end) + rd.defs_of(start):
        if d.node is g.entry or d.kind not in ('assign',) or not isinstance(d.value, ast.AST):
            continue
        if isinstance(d.value, ast.Call) and is_name(d.value.func, 'len'):
            continue
        if isinstance(d.value, ast.Constant) and d.value.value == 0:
            continue
        facts = graph.guard_facts(dom, d.node)
        src_names = {x.id for x in ast.walk(d.value) if isinstance(x, ast.Name)}
        def found_test(fa):
            e = fa.expr
            if not (isinstance(e, ast.Compare) and isinstance(e.left, ast.Name) and e.left.id in src_names and len(e.ops) == 1 and isinstance(e.comparators[0], (ast.Constant, ast.UnaryOp))):
                return False
            c0 = e.comparators[0]
            cv = c0.value if isinstance(c0, ast.Constant) else (-c0.operand.value if isinstance(c0.op, ast.USub) and isinstance(c0.operand, ast.Constant) else None)
            op = type(e.ops[0])
            # "found" <=> position >= 0: position 0 is a hit
            return fa.polarity is True and ((op is ast.GtE and cv == 0) or (op is ast.Gt and cv == -1) or (op is ast.NotEq and cv == -1))
        guarded = any(found_test(fa) for fa in facts)
        loose = any(isinstance(fa.expr, ast.Compare) and isinstance(fa.expr.left, ast.Name) and fa.expr.left.id in src_names and isinstance(fa.expr.ops[0], (ast.GtE, ast.Gt, ast.NotEq)) and fa.polarity is True for fa in facts)
        if d.name == end:
            shape = isinstance(d.value, ast.Name)
            what = 'end = position found'
        else:
            shape = isinstance(d.value, ast.BinOp) and isinstance(d.value.op, ast.Add) and isinstance(d.value.right, ast.Constant) and d.value.right.value == 1 and isinstance(d.value.left, ast.Name)
            what = 'start = position of the dot + 1'
        rep.ob('C03.R6', ctx.loc(f, d.node.ast), ctx.src(d.node.ast), guarded and shape,
               '%s, only when the search succeeded' % what if guarded and shape else
               (('the success test of the search treats position 0 as "not found": a message that starts with the searched character keeps it' if loose else
                 'the window is narrowed although the search may have failed (-1)') if not guarded else 'unexpected window update (%s expected)' % what), anchor=q)


def _last_dot_confined(ctx, f, g, rd, q, msg):
    """idiom-independent necessary condition: whatever way the class name is cut out, the search for the LAST dot must only see the text
    before the first colon (a dot in the message -- a float, a file name, '...' -- must not move the start of the name)"""
    rep = ctx.rep

    def colon_derived(node, e, depth=0):
        """the value of e at node is (bounded by) the result of a first-colon search / cut"""
        if depth > 6 or e is None:
            return False
        if isinstance(e, ast.Call) and isinstance(e.func, ast.Attribute) and e.func.attr in ('find', 'index', 'partition', 'split') and e.args and isinstance(e.args[0], ast.Constant) and e.args[0].value == ':':
            return True
        if isinstance(e, ast.Subscript):
            return colon_derived(node, e.value, depth + 1) or (isinstance(e.slice, ast.Slice) and (colon_derived(node, e.slice.upper, depth + 1)))
        if isinstance(e, ast.Name):
            ds = [d for d in rd.at(node, e.id) if d.kind != 'param']
            # at least one reaching definition comes from the colon search (the others are the "not found" defaults)
            return any(isinstance(d.value, ast.AST) and colon_derived(d.node, d.value, depth + 1) for d in ds) or \
                any(isinstance(d.value, tuple) and isinstance(d.value[1], ast.AST) and colon_derived(d.node, d.value[1], depth + 1) for d in ds)
        if isinstance(e, ast.IfExp):
            return colon_derived(node, e.body, depth + 1) or colon_derived(node, e.orelse, depth + 1)
        return False
    n_ops = 0
    # a search whose needle is not written out (a loop over the terminators) cannot be told from the colon search: not judged
    for n in g.nodes:
        if n.dup or n.kind not in ('stmt', 'test'):
            continue
        for c in node_calls(n):
            if isinstance(c.func, ast.Attribute) and c.func.attr in ('find', 'index', 'partition', 'split') and is_name(c.func.value, msg) and c.args and not isinstance(c.args[0], ast.Constant):
                need(False, 'C03.R6: the message is searched for `%s`, which is not a literal: the cuts at the first newline / first colon are not visible structurally' % ctx.src(c.args[0]))
    for n in g.nodes:
        if n.dup or n.kind not in ('stmt', 'test'):
            continue
        for c in node_calls(n):
            if isinstance(c.func, ast.Attribute) and c.func.attr in ('rfind', 'rindex', 'rpartition', 'rsplit') and c.args and isinstance(c.args[0], ast.Constant) and c.args[0].value == '.':
                n_ops += 1
                if c.func.attr in ('rfind', 'rindex') and len(c.args) >= 3:
                    ok = colon_derived(n, c.args[2])
                else:
                    ok = colon_derived(n, c.func.value)
                rep.ob('C03.R6', ctx.loc(f, c), 'last-dot search ' + ctx.src(c), ok,
                       'confined to the text before the first colon' if ok else
                       'the last dot is searched in text that still contains the message: a dot after the colon (`ValueError: invalid ratio 3.5`) moves the start of the class name, the stripped name '
                       'becomes empty and -- an empty want matches everything -- a wrong exception type passes under IGNORE_EXCEPTION_DETAIL', anchor=q)
            elif isinstance(c.func, ast.Attribute) and c.func.attr in ('find', 'index', 'partition') and c.args and isinstance(c.args[0], ast.Constant) and c.args[0].value == '.':
                n_ops += 1
                rep.ob('C03.R6', ctx.loc(f, c), 'dot search ' + ctx.src(c), False,
                       'the dotted path of the exception name is cut at the FIRST dot: for a name with two or more dots (xml.etree.ElementTree.ParseError) only the first component is '
                       'dropped, so a want and a got that qualify the same class differently no longer compare equal under IGNORE_EXCEPTION_DETAIL', anchor=q)
    rep.floor('C03.R6', 'last-dot operations in _strip_exception_details', n_ops, 1)


def _cut_of(call_sub):
    """(receiver expr, (needle, which, keep)) for  X.partition(c)[0] / X.rpartition(c)[2] / X.split(c, 1)[0] / X.rsplit(c, 1)[-1] / X.splitlines()[0]"""
    e = call_sub
    if not (isinstance(e, ast.Subscript) and isinstance(e.value, ast.Call) and isinstance(e.value.func, ast.Attribute)):
        return None
    idx = e.slice
    if isinstance(idx, ast.UnaryOp) and isinstance(idx.op, ast.USub) and isinstance(idx.operand, ast.Constant):
        i = -idx.operand.value
    elif isinstance(idx, ast.Constant) and isinstance(idx.value, int):
        i = idx.value
    else:
        return None
    c = e.value
    m = c.func.attr
    recv = c.func.value
    needle = c.args[0].value if c.args and isinstance(c.args[0], ast.Constant) else None
    if m == 'splitlines' and not c.args and i == 0:
        return recv, ('\n', 'first', 'left')
    if needle is None:
        return None
    if m == 'partition' and i in (0, 2):
        return recv, (needle, 'first', 'left' if i == 0 else 'right')
    if m == 'rpartition' and i in (0, 2):
        return recv, (needle, 'last', 'left' if i == 0 else 'right')
    maxsplit = c.args[1].value if len(c.args) > 1 and isinstance(c.args[1], ast.Constant) else None
    if m == 'split' and maxsplit == 1 and i == 0:
        return recv, (needle, 'first', 'left')
    if m == 'rsplit' and maxsplit == 1 and i in (-1, 1):
        return recv, (needle, 'last', 'right')
    return None


def _strip_details_cut_chain(ctx, f, g, rd, q, msg):
    """second recognised idiom: the class name is cut out by a chain of partition-like operations"""
    rep = ctx.rep
    rets = [n for n in g.nodes if n.kind == 'stmt' and isinstance(n.ast, ast.Return)]
    need(len(rets) == 1, 'C03.R6: neither the index idiom nor a single-expression cut chain was recognised in _strip_exception_details')
    chain = []
    node = rets[0]
    e = rets[0].ast.value
    depth = 0
    while depth < 12:
        depth += 1
        if isinstance(e, ast.Name):
            if e.id == msg and all(d.kind == 'param' for d in rd.at(node, msg)):
                break
            defs = rd.at(node, e.id)
            need(len(defs) == 1, 'C03.R6: cut chain passes through a variable with several definitions')
            node = defs[0].node
            v = defs[0].value
            if isinstance(v, tuple) and v[0] == 'unpack' and isinstance(v[1], ast.AST) and isinstance(v[2], int):
                # `head, _, _ = X.partition(c)` is X.partition(c)[0]
                e = ast.Subscript(value=v[1], slice=ast.Constant(value=v[2]), ctx=ast.Load())
                continue
            need(isinstance(v, ast.AST), 'C03.R6: cut chain passes through a definition that is not a plain assignment')
            e = v
            continue
        cut = _cut_of(e)
        need(cut is not None, 'C03.R6: unrecognised step `%s` in the class-name extraction' % ctx.src(e))
        e, c = cut
        chain.append(c)
    chain = chain[::-1]         # innermost (applied first) first
    rep.note('strip_details_cut_chain', chain)
    spec_last = ('.', 'last', 'right')
    spec_other = {('\n', 'first', 'left'), (':', 'first', 'left')}
    ok = len(chain) == 3 and chain[-1] == spec_last and set(chain[:2]) == spec_other
    rep.ob('C03.R6', ctx.loc(f, rets[0].ast), 'cut chain %s' % chain, ok,
           'first line and text before the first colon are cut first, the dotted path is dropped last' if ok else
           'the class name is extracted by the cuts %s; required: newline and colon cuts (first occurrence, keep left) and only then the last-dot cut (keep right) -- '
           'otherwise a dot or colon inside the message changes the extracted name' % chain, anchor=q)


def r7_run_state_is_forwarded(ctx):
    """the flags that decide this property reach the comparison only through the run state: same clause as C05.R11"""
    from . import c05
    c05.r11_run_state_is_forwarded(ctx, rule='C03.R7')


# ---------------------------------------------------------------------------
from ..selftest import fire, silent      # noqa: E402

DE = 'xdoctest/doctest_example.py'
CK = 'xdoctest/checker.py'
VARIANTS = [
    fire('position-zero-counts-as-not-found', 'C03.R6', (CK, "    i = msg.find(':', 0, end)\n    if i >= 0:\n", "    i = msg.find(':', 0, end)\n    if i > 0:\n")),
    fire('stripped-texts-never-compared', 'C03.R3', (CK, "        flag = check_output(exc_got1, exc_want1, runstate)\n", "        pass\n")),
    fire('colon-position-never-narrows-the-window', 'C03.R6', (CK, "    i = msg.find(':', 0, end)\n    if i >= 0:\n        end = i\n", "    i = msg.find(':', 0, end)\n    if i >= 0:\n        pass\n")),
    fire('dot-position-never-moves-the-start', 'C03.R6', (CK, "        start = i + 1\n", "        pass\n")),
    fire('class-name-cut-at-the-first-dot', 'C03.R6', (CK, "    i = msg.rfind('.', 0, end)\n", "    i = msg.find('.', 0, end)\n")),
    fire('expected-exception-ignored-under-ignore-want', 'C03.R1b', (DE, "                    except Exception:\n                        if part.want:\n", "                    except Exception:\n                        if part.want and not runstate['IGNORE_WANT']:\n")),
    fire('first-line-of-exception-display-compared', 'C03.R1b', (DE, "exc_got = traceback.format_exception_only(*exception[:2])[-1]", "exc_got = traceback.format_exception_only(*exception[:2])[0]")),
    fire('traceback-stack-group-greedy', 'C03.R5', (CK, "    (?P<stack> .*?)      # don't blink", "    (?P<stack> .*)       # don't blink")),
    fire('last-dot-searched-in-whole-line', 'C03.R6', (CK, "    i = msg.rfind('.', 0, end)\n", "    i = msg.rfind('.', 0, len(msg))\n")),
    fire('return-true-on-non-traceback-want', 'C03.R2a',
         (CK, "        # Reraise the error if the want message is formatted like an exception\n        raise\n",
              "        # Reraise the error if the want message is formatted like an exception\n        return True\n")),
    fire('drop-non-traceback-test', 'C03.R2a',
         (CK, "    if exc_want is None:\n        # Reraise the error if the want message is formatted like an exception\n        raise\n", "")),
    fire('handler-swallows-without-want', 'C03.R1',
         (DE, "                            checker.check_exception(exc_got, want, runstate)\n                        else:\n                            raise\n",
              "                            checker.check_exception(exc_got, want, runstate)\n                        else:\n                            pass\n")),
    fire('handler-continue', 'C03.R1',
         (DE, "                            checker.check_exception(exc_got, want, runstate)\n                        else:\n                            raise\n",
              "                            checker.check_exception(exc_got, want, runstate)\n                        else:\n                            continue\n")),
    fire('check-exception-ignores-flag', 'C03.R2',
         (CK, "    if not flag:\n        msg = 'exception message is different'\n", "    if False:\n        msg = 'exception message is different'\n")),
    fire('strip-details-always', 'C03.R3',
         (CK, "    if not flag and runstate['IGNORE_EXCEPTION_DETAIL']:\n", "    if not flag:\n")),
    fire('strip-details-wrong-flag', 'C03.R3',
         (CK, "    if not flag and runstate['IGNORE_EXCEPTION_DETAIL']:\n", "    if not flag and runstate['IGNORE_WANT']:\n")),
    fire('strip-only-got', 'C03.R3',
         (CK, "        exc_want1 = _strip_exception_details(exc_want)\n", "        exc_want1 = exc_want\n")),
    fire('expected-exception-ends-run', 'C03.R4',
         (DE, "                            checker.check_exception(exc_got, want, runstate)\n", "                            checker.check_exception(exc_got, want, runstate)\n                            break\n")),
    fire('regex-header-unanchored', 'C03.R5',
         (CK, "    ^(?P<hdr> Traceback\\ \\(", "    (?P<hdr> Traceback\\ \\(")),
    fire('regex-msg-any-line', 'C03.R5',
         (CK, "    ^ (?P<msg> \\w+ .*)", "    ^ (?P<msg> .*)")),
    fire('dot-search-unbounded', 'C03.R6', (CK, "    i = msg.rfind('.', 0, end)\n", "    i = msg.rfind('.')\n")),
    fire('colon-search-unbounded', 'C03.R6', (CK, "    i = msg.find(':', 0, end)\n", "    i = msg.find(':')\n")),
    fire('start-keeps-the-dot', 'C03.R6', (CK, "        start = i + 1\n", "        start = i\n")),
    fire('narrowing-without-success-test', 'C03.R6', (CK, "    i = msg.find(':', 0, end)\n    if i >= 0:\n        end = i\n", "    i = msg.find(':', 0, end)\n    end = i\n")),
    fire('strip-details-partition-wrong-order', 'C03.R6',
         (CK, "    start, end = 0, len(msg)\n    # The exception name must appear on the first line.\n    i = msg.find(\"\\n\")\n    if i >= 0:\n        end = i\n    # retain up to the first colon (if any)\n    i = msg.find(':', 0, end)\n    if i >= 0:\n        end = i\n    # retain just the exception name\n    i = msg.rfind('.', 0, end)\n    if i >= 0:\n        start = i + 1\n    return msg[start: end]\n",
              "    head = msg.partition('\\n')[0]\n    return head.rpartition('.')[2].partition(':')[0]\n")),
    silent('strip-details-partition-right-order',
           (CK, "    start, end = 0, len(msg)\n    # The exception name must appear on the first line.\n    i = msg.find(\"\\n\")\n    if i >= 0:\n        end = i\n    # retain up to the first colon (if any)\n    i = msg.find(':', 0, end)\n    if i >= 0:\n        end = i\n    # retain just the exception name\n    i = msg.rfind('.', 0, end)\n    if i >= 0:\n        start = i + 1\n    return msg[start: end]\n",
                "    head = msg.partition('\\n')[0]\n    return head.partition(':')[0].rpartition('.')[2]\n")),
    silent('flag-test-rephrased',
           (CK, "    if not flag:\n        msg = 'exception message is different'\n", "    if flag is False or not flag:\n        msg = 'exception message is different'\n"),
           note='compound test keeps the flag fact on the false edge'),
    silent('reraise-guard-inverted-form',
           (CK, "    if exc_want is None:\n        # Reraise the error if the want message is formatted like an exception\n        raise\n    flag = check_output(exc_got, exc_want, runstate)\n",
                "    if exc_want is not None:\n        flag = check_output(exc_got, exc_want, runstate)\n    else:\n        raise\n")),
    silent('want-local-inlined',
           (DE, "                            want = part.want\n                            checker.check_exception(exc_got, want, runstate)\n",
                "                            checker.check_exception(exc_got, part.want, runstate)\n")),
]
