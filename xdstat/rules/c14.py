"""
C14 -- malformed docstrings are contained: bad syntax never crashes collection.
"""
import ast

from ..context import need
from ..loader import AnalysisError
from .. import graph
from ..roles import node_calls
from ..dataflow import field_name
from ..resolve import walk_scope
from .common import fmt_facts, is_name, is_attr_of

EXPLANATION = (
    'R1 ESCAPE of DoctestParser.parse on str input: after the isinstance guard every call outside the wrapping try is a total string operation '
    '(or the verified _min_indentation, or debug output under DEBUG_PARSER); the wrapping handler covers Exception; every path through the handler '
    'ends in `raise DoctestParseError(...)`; calls in the handler before that raise are formatting or debug-guarded; and `failpoint` is definitely '
    'assigned (an exceptional edge out of the i-th statement of the try leaves the i-th result at its None initialiser, which the test chain then '
    'meets). Hence only DoctestParseError or a non-Exception leaves parse. R2 containment per docstring in core.parse_docstr_examples: the iteration '
    'over the style parser is inside a try whose handler covers Exception; on the MalformedDocstr and DoctestParseError branches the handler '
    'completes without raise, a warnings.warn call dominates those exits and no yield follows; other classes are re-raised; attributes read from '
    'the parse error are ones its constructor stores. R3 style dispatch: the freeform attempt of `auto` is outside the google try, whose handler '
    're-raises only when examples were already produced. R4 collection continues with the next calldef. R5 VARIANT: every while-loop reachable '
    'from parse (outside the vendored tokenizer) has a recognised variant: consumption of the finite line iterator on every iteration path, or an '
    'integer named in the loop test with a constant lower bound that strictly decreases on every path (a two-variable difference bound '
    'discharges "assigned from a smaller variable"); for-loops never grow the list they iterate. Termination inside tokenize / ast.parse / re is trusted. '
    'R7 the constructor (and str) of DoctestParseError reads from its arguments only what every exception object has, unless under an isinstance/hasattr guard: '
    'it is built inside the wrapping handler from any caught exception. R8 the source line table static collection indexes with ast line numbers is split '
    'with str.splitlines, whose line ends are a superset of the tokenizer\'s.'
    ' R2b the containment handler is total: str.format only on literal templates, ensure_unicode only on a value just tested non-empty. R3 also: the google attempt re-raises as soon as ONE example was produced. R9 look-ahead subscripts of split_google_docblocks are under a strict `< len` guard. R10 the candidate index the docstring locators derive from the newline count is range-checked before it indexes the line table (found F14).')
DECIDES = ['ESCAPE(parse)', 'containment handler shape', 'style dispatch extent', 'collection continues', 'loop VARIANTs']
NOT_DECIDED = ['termination of the vendored CPython tokenizer, ast.parse and re (trusted)', 'exceptions of property getters']

PARSE = 'xdoctest.parser.DoctestParser.parse'
PDE = 'xdoctest.core.parse_docstr_examples'
DPE = 'xdoctest.exceptions.DoctestParseError'
TOTAL_STR_METHODS = {'expandtabs', 'splitlines', 'join', 'strip', 'format', 'lstrip', 'rstrip', 'split', 'startswith', 'endswith', 'replace'}


def _total_on_str_helper(ctx, h, depth=0):
    """a small module-level helper of parser.py whose every call is a total string operation, len/min-with-default/map, a slice, or another such helper"""
    if depth > 1 or h.module.name != 'xdoctest.parser' or h.cls is not None:
        return False
    for x in ast.walk(h.node):
        if isinstance(x, (ast.Raise, ast.Assert, ast.Yield, ast.YieldFrom, ast.Await)):
            return False
        if isinstance(x, ast.Subscript) and not isinstance(x.slice, ast.Slice):
            return False
        if isinstance(x, ast.Call):
            r = ctx.res.resolve_call(h, x)
            if r[0] == 'builtin' and r[1] in ('len', 'list', 'map', 'isinstance'):
                continue
            if r[0] == 'builtin' and r[1] == 'min' and any(k.arg == 'default' for k in x.keywords):
                continue
            if isinstance(x.func, ast.Attribute) and x.func.attr in TOTAL_STR_METHODS and r[0] in ('method', 'ext'):
                continue
            if isinstance(x.func, ast.Attribute) and x.func.attr in ('findall', 'search', 'match') and isinstance(x.func.value, ast.Name) and x.func.value.id.isupper():
                continue        # a compiled module-level pattern applied to text
            if r[0] == 'repo' and len(r[1]) == 1 and (r[1][0].qualname == 'xdoctest.parser._min_indentation' or _total_on_str_helper(ctx, r[1][0], depth + 1)):
                continue
            return False
    return True


def _default_summaries(ctx):
    if not hasattr(ctx, '_default_summaries'):
        from ..policy import Summaries, DefaultPolicy
        ctx._default_summaries = Summaries(ctx.prog, ctx.res, DefaultPolicy, trusted=('xdoctest._tokenize',))
    return ctx._default_summaries


def run(ctx):
    for fn in (r1_escape_parse, r2_containment, r3_style_dispatch, r4_collection_continues, r5_variants, r6_directives_checked_at_parse_time,
               r7_error_constructor_total, r8_line_table_covers_ast_lines, r2b_containment_handler_is_total, r9_lookahead_in_bounds, r10_docstring_locator_indices_in_bounds, r12_parser_handlers_reraise, r11_definite_assignment, r13_tokenizer_quote_siblings):
        ctx.rep.rule(fn, ctx)


BASE_EXCEPTION_ATTRS = {'args', 'with_traceback', 'add_note', '__class__', '__traceback__', '__cause__', '__context__', '__doc__', '__dict__', '__module__'}


def r7_error_constructor_total(ctx):
    """the wrapping handler of parse builds DoctestParseError from ANY caught exception (`except Exception as orig_ex`): the constructor must
    not assume more about its arguments than that -- an attribute only some exception classes have (SyntaxError.msg, .lineno, OSError.errno)
    raises AttributeError inside the handler, and that AttributeError, not the library's parse error, leaves parse"""
    rep = ctx.rep
    cls = ctx.cls(DPE)
    n_uses = 0
    for mname in ('__init__', '__str__', '__repr__'):
        if mname not in cls.methods:
            continue
        f = cls.methods[mname]
        g = ctx.cfg(f)
        dom = ctx.dom(g, g.entry)
        params = [a.arg for a in f.node.args.posonlyargs + f.node.args.args + f.node.args.kwonlyargs][1:]
        recv = f.node.args.args[0].arg
        subjects = set(params)
        if mname != '__init__':
            subjects = set()
        # in every method: what was stored from a constructor argument is as unknown as the argument
        stored = {}
        fi = cls.methods.get('__init__')
        if fi is not None:
            ip = [a.arg for a in fi.node.args.args][1:]
            for x in ast.walk(fi.node):
                if isinstance(x, ast.Assign) and isinstance(x.value, ast.Name) and x.value.id in ip:
                    for t in x.targets:
                        if isinstance(t, ast.Attribute) and is_name(t.value, fi.node.args.args[0].arg):
                            stored[t.attr] = x.value.id
        for n in g.nodes:
            if n.dup or n.kind not in ('stmt', 'test') or not isinstance(n.ast, ast.AST):
                continue
            for x in ast.walk(n.ast):
                base = None
                if isinstance(x, (ast.Attribute, ast.Subscript)) and isinstance(x.ctx, ast.Load):
                    v = x.value
                    if isinstance(v, ast.Name) and v.id in subjects:
                        base = v.id
                    elif isinstance(v, ast.Attribute) and is_name(v.value, recv) and v.attr in stored and stored[v.attr] not in ('msg',):
                        base = recv + '.' + v.attr
                if base is None or base == 'msg':
                    continue
                n_uses += 1
                attr = x.attr if isinstance(x, ast.Attribute) else '[...]'
                facts = graph.guard_facts(dom, n)
                guarded = any(fa.polarity is True and isinstance(fa.expr, ast.Call) and getattr(fa.expr.func, 'id', None) in ('isinstance', 'hasattr')
                              and fa.expr.args and ast.unparse(fa.expr.args[0]) == ast.unparse(x.value) for fa in facts)
                # short-circuit guard in the same expression: `hasattr(e, 'msg') and e.msg`
                guarded = guarded or any(fa.polarity is True and isinstance(fa.expr, ast.Call) and getattr(fa.expr.func, 'id', None) in ('isinstance', 'hasattr')
                                         and fa.expr.args and ast.unparse(fa.expr.args[0]) == ast.unparse(x.value) for fa in graph.short_circuit_facts(n.ast, x))
                ok = guarded or (isinstance(x, ast.Attribute) and attr in BASE_EXCEPTION_ATTRS)
                rep.ob('C14.R7', ctx.loc(f, x), ctx.src(x), ok,
                       'defined for every exception object' if ok else
                       '%s.%s reads %s from a value that can be any exception the parser caught (or None-checked only): for a failure that is not of that class this raises '
                       'AttributeError/TypeError inside the handler of parse, which then escapes instead of DoctestParseError' % (cls.name, mname, attr), anchor=f.qualname)
    fi = cls.methods.get('__init__')
    need(fi is not None, 'C14.R7: DoctestParseError.__init__ not found')
    rep.ob('C14.R7', ctx.loc(fi, fi.node), 'uses of the wrapped exception / payload inside DoctestParseError', True,
           '%d attribute or item read(s) on constructor arguments, each reported above' % n_uses, nontrivial=False, anchor=fi.qualname)


def r8_line_table_covers_ast_lines(ctx):
    """static collection indexes its table of source lines with line numbers taken from the ast. The tokenizer ends a line at \\n, \\r\\n and a lone
    \\r; the table must be split at least there (str.splitlines does, split('\\n') does not), or a module with a stray carriage return in
    a docstring makes the table shorter than the numbers used to index it: IndexError out of collection, which no handler downgrades"""
    rep = ctx.rep
    V = 'xdoctest.static_analysis.TopLevelVisitor'
    cls = ctx.cls(V)
    stores = []
    reads = 0
    for f in cls.methods.values():
        recv = f.node.args.args[0].arg if f.node.args.args else None
        if recv is None:
            continue
        for x in walk_scope(f.node):
            if isinstance(x, ast.Assign):
                for t in x.targets:
                    if isinstance(t, ast.Attribute) and is_name(t.value, recv) and t.attr == 'sourcelines':
                        stores.append((f, x))
            if isinstance(x, ast.Attribute) and x.attr == 'sourcelines' and is_name(x.value, recv) and isinstance(x.ctx, ast.Load):
                reads += 1
    rep.floor('C14.R8', 'reads of the source line table', reads, 2)
    real = [(f, x) for (f, x) in stores if not (isinstance(x.value, ast.Constant) and x.value.value is None)]
    rep.floor('C14.R8', 'definitions of the source line table', len(real), 1)
    for (f, x) in real:
        v = x.value
        kind = None
        if isinstance(v, ast.Call) and isinstance(v.func, ast.Attribute):
            if v.func.attr == 'splitlines':
                kind = 'splitlines'
            elif v.func.attr == 'split' and v.args and isinstance(v.args[0], ast.Constant) and v.args[0].value in ('\n', '\r\n'):
                kind = 'split-lf'
            elif v.func.attr == 'split' and not is_name(v.func.value, 're') and not v.args:
                kind = 'split-ws'
        need(kind is not None, 'C14.R8: the source line table is built by %s, a splitter this rule does not know' % ctx.src(v, 80))
        ok = kind == 'splitlines'
        rep.ob('C14.R8', ctx.loc(f, x), ctx.src(x), ok,
               'str.splitlines ends a line wherever the tokenizer does (and in a few more places), so every ast line number is a valid index' if ok else
               'the line table is split at %s only, but ast line numbers also count a lone carriage return as a line end: with a \\r inside a docstring the table is shorter '
               'than the line numbers used to index it (IndexError during collection, not contained by any handler)' % ('newline characters' if kind == 'split-lf' else 'whitespace'),
               anchor=f.qualname)


def _debug_guarded(facts):
    return any('DEBUG_PARSER' in fa.text and fa.polarity is True for fa in facts) or any('version_info' in fa.text and fa.polarity is True for fa in facts)


def r1_escape_parse(ctx):
    rep = ctx.rep
    f = ctx.func(PARSE)
    g = ctx.cfg(f)
    rd = ctx.rd(f)
    dom = ctx.dom(g, g.entry)
    src = f.node.args.args[1].arg
    # the wrapping try: its body calls the labeller
    tries = [n for n in f.node.body if isinstance(n, ast.Try)]
    if not tries:
        rep.ob('C14.R1b', ctx.loc(f, f.node), 'wrapping try of parse()', False, 'the parse phases are not wrapped in a try at all: every internal error escapes unconverted', anchor=PARSE)
        return
    need(len(tries) == 1, 'C14.R1: more than one top-level try in parse (unrecognised structure)')
    tr = tries[0]
    # (b) handler covers Exception
    covers = False
    hcov = None
    for h in tr.handlers:
        cl = g._handler_classes(h)
        if cl is None or any(c in ('Exception', 'BaseException') for c in cl):
            covers = True
            hcov = h
            break
    rep.ob('C14.R1b', ctx.loc(f, tr), 'try ... except %s' % (ctx.src(tr.handlers[0].type) if tr.handlers and tr.handlers[0].type else ''), covers,
           'the handler of the parse phases covers Exception' if covers else
           'the handler around the parse phases is narrower than Exception: tokenizer / indentation / generator errors escape as foreign exception classes', anchor=PARSE)
    # every handler before the covering one must also convert
    # (a) calls outside the try (after the isinstance guard)
    try_nodes = set()
    for s in ast.walk(tr):
        try_nodes.add(id(s))
    guard_ok = any(isinstance(n, ast.If) and isinstance(n.test, ast.UnaryOp) and isinstance(n.test.operand, ast.Call) and is_name(n.test.operand.func, 'isinstance') for n in f.node.body)
    rep.ob('C14.R1a', ctx.loc(f, f.node), 'isinstance(string, str) guard', guard_ok, 'non-str input raises TypeError up front (outside "arbitrary text")' if guard_ok else 'no type guard', nontrivial=False, anchor=PARSE)
    n_out = 0
    for n in g.nodes:
        if n.dup or n.kind not in ('stmt', 'test'):
            continue
        if id(n.stmt) in try_nodes or (isinstance(n.ast, ast.AST) and id(n.ast) in try_nodes):
            continue
        for c in node_calls(n):
            n_out += 1
            facts = graph.guard_facts(dom, n)
            r = ctx.res.resolve_call(f, c)
            kind = None
            if _debug_guarded(facts):
                kind = 'debug-only'
            elif r[0] == 'builtin' and r[1] in ('isinstance', 'print', 'len', 'list', 'TypeError'):
                kind = 'total builtin'
            elif isinstance(c.func, ast.Attribute) and c.func.attr in TOTAL_STR_METHODS and r[0] in ('method', 'ext'):
                kind = 'total str method'
            elif r[0] == 'repo' and r[1][0].qualname == 'xdoctest.parser._min_indentation':
                kind = 'verified helper (min() guarded, see C13.R1)'
            elif r[0] == 'builtin' and r[1] == 'min' and (any(k.arg == 'default' for k in c.keywords) or
                                                          any(fa.polarity is True and isinstance(fa.expr, ast.Compare) and 'len(' in fa.text for fa in facts) or
                                                          any(fa.polarity is True and isinstance(fa.expr, ast.Name) for fa in facts)):
                kind = 'min() of a sequence known to be non-empty (see C13.R1)'
            elif isinstance(c.func, ast.Attribute) and c.func.attr in ('findall', 'finditer', 'search', 'match', 'fullmatch', 'split', 'sub') and isinstance(c.func.value, ast.Name) and \
                    c.func.value.id in f.module.assigns and isinstance(f.module.assigns[c.func.value.id], ast.Call) and ast.unparse(f.module.assigns[c.func.value.id].func) == 're.compile':
                kind = 'method of a module-level compiled pattern (total on str)'
            elif r[0] == 'repo' and len(r[1]) == 1 and _total_on_str_helper(ctx, r[1][0]):
                kind = 'helper whose body only applies total string operations'
            elif isinstance(n.ast, ast.Raise) and any(x is c for x in ast.walk(n.ast)):
                kind = 'operand of the guard raise'
            elif r[0] == 'repo' and len(r[1]) == 1 and not _default_summaries(ctx).escapes(r[1][0]):
                kind = 'repository helper that cannot raise (empty escape summary)'
            elif r[0] == 'class' and not c.args and not c.keywords:
                init = ctx.prog.find_method(r[1], '__init__')
                if init is None or not _default_summaries(ctx).escapes(init):
                    kind = 'constructor of a repository class whose __init__ cannot raise'
            rep.ob('C14.R1a', ctx.loc(f, c), ctx.src(c), kind is not None,
                   'outside the try: %s' % kind if kind else 'a call that may raise on some text lies outside the wrapping try: its exception leaves parse() unconverted', anchor=PARSE)
    rep.floor('C14.R1', 'calls outside the wrapping try', n_out, 3)
    if not covers:
        return
    # (c) every path through the handler ends in raise DoctestParseError
    hn = g._handler_nodes.get((id(hcov), ()))
    need(hn is not None, 'C14.R1: handler node missing')
    reach = graph.reachable([hn], efilter=graph.normal_only)
    # paths that no execution takes because of what the locals hold when the handler is entered (a phase result that is still None) do not count
    feasible = {id(x) for x in graph.reachable_with_values([g.entry])}
    reach = [x for x in reach if id(x) in feasible]
    leaves_normally = any(x is g.exit for x in reach) or any((not any(fr.kind == 'try' and getattr(fr, 'handler', None) is hcov for fr in x.frames)) and x is not hn for x in reach)
    raises = [x for x in reach if x.kind == 'stmt' and isinstance(x.ast, ast.Raise)]
    toks = set()
    for x in raises:
        toks |= {tok for (_, k, tok) in x.succ if k == 'e'}
    ok = not leaves_normally and toks == {('exact', DPE)}
    rep.ob('C14.R1c', ctx.loc(f, hcov), 'handler -> raise DoctestParseError', ok,
           'every path through the handler ends in `raise DoctestParseError(...)`' if ok else
           'the handler %s%s' % ('can complete normally (parse returns None) ' if leaves_normally else '', 'raises %s' % sorted(toks) if toks != {('exact', DPE)} else ''), anchor=PARSE)
    # (d) calls inside the handler
    for x in reach:
        if x.kind not in ('stmt', 'test'):
            continue
        for c in node_calls(x):
            facts = graph.guard_facts(dom, x)
            r = ctx.res.resolve_call(f, c)
            kind = None
            if _debug_guarded(facts):
                kind = 'debug-only'
            elif r[0] == 'class' and r[1].qualname == DPE:
                kind = 'constructor of the library error'
            elif isinstance(c.func, ast.Attribute) and c.func.attr == 'format' and isinstance(c.func.value, ast.Constant):
                kind = 'formatting of a constant template'
            elif r[0] == 'builtin' and r[1] in ('print', 'repr', 'str', 'type', 'len'):
                kind = 'total builtin'
            elif r[0] == 'repo' and len(r[1]) == 1 and not _default_summaries(ctx).escapes(r[1][0]):
                kind = 'repository helper that cannot raise (empty escape summary)'
            rep.ob('C14.R1d', ctx.loc(f, c), ctx.src(c, 80), kind is not None,
                   'inside the handler: %s' % kind if kind else 'a call that may raise precedes the conversion raise inside the handler', nontrivial=False, anchor=PARSE)
    # (e) definite assignment of the names read by the raise
    for rn in raises:
        used = [x.id for x in ast.walk(rn.ast) if isinstance(x, ast.Name) and isinstance(x.ctx, ast.Load)]
        locals_assigned_in_handler = {d.name for d in rd.defs if any(fr.kind == 'try' and getattr(fr, 'handler', None) is hcov for fr in d.node.frames) and d.kind == 'assign'}
        for name in sorted(set(used) & locals_assigned_in_handler):
            defs_nodes = [d.node for d in rd.defs_of(name)]
            # per exceptional entry into the handler
            bad = None
            n_entries = 0
            for s in g.nodes:
                for (t, tok) in s.esucc():
                    if t is not hn:
                        continue
                    n_entries += 1
                    # variables that are certainly None when the exception leaves statement s
                    none_vars = set()
                    for vname, ds in rd.by_name.items():
                        reaching = rd.at(s, vname)
                        if reaching and all(isinstance(d.value, ast.Constant) and d.value.value is None for d in reaching):
                            none_vars.add(vname)

                    def ef(a, b, kind, tk, none_vars=none_vars):
                        if kind != 'n':
                            return False
                        if b.kind == 'branch' and b.attrs['test'].kind == 'test':
                            e = b.attrs['test'].ast
                            if isinstance(e, ast.Compare) and len(e.ops) == 1 and isinstance(e.left, ast.Name) and e.left.id in none_vars and \
                                    isinstance(e.comparators[0], ast.Constant) and e.comparators[0].value is None and isinstance(e.ops[0], (ast.Is, ast.IsNot)):
                                truth = isinstance(e.ops[0], ast.Is)
                                # only valid while the variable is not reassigned inside the handler
                                if b.attrs['polarity'] != truth:
                                    return False
                        return True
                    w = graph.must_pass([hn], lambda x, rn=rn: x is rn, through=defs_nodes, efilter=ef)
                    if w is not None:
                        bad = (s, w)
            rep.ob('C14.R1e', ctx.loc(f, rn.ast), '`%s` definitely assigned at the conversion raise' % name, bad is None,
                   'for each of the %d exceptional entries the None-initialised result of the failing phase selects a branch that assigns it' % n_entries if bad is None else
                   'entering the handler from line %d, `%s` can be unbound at the raise: UnboundLocalError would escape instead of the library error' % (bad[0].lineno, name),
                   witness=None if bad is None else graph.fmt_path(bad[1], f.module.relpath), anchor=PARSE)


# ---------------------------------------------------------------------------
def r2_containment(ctx):
    rep = ctx.rep
    f = ctx.func(PDE)
    g = ctx.cfg(f)
    rd = ctx.rd(f)
    dom = ctx.dom(g, g.entry)
    ys = [n for n in g.nodes if n.kind == 'stmt' and not n.dup and any(isinstance(x, ast.Yield) for x in ast.walk(n.ast))]
    rep.floor('C14.R2', 'yields of parse_docstr_examples', len(ys), 1)
    # the for loop that drives the style parser
    drivers = [n for n in g.nodes if n.kind == 'for' and not n.dup and isinstance(n.ast.iter, ast.Call) and any(graph.in_loop_body(y, n.ast) for y in ys)]
    need(drivers, 'C14.R2: loop over the style parser not found')
    hcover = None
    for d in drivers:
        tfr = [fr for fr in d.frames if fr.kind == 'try' and fr.phase == 'body']
        covered = None
        for fr in tfr:
            for h in fr.stmt.handlers:
                cl = g._handler_classes(h)
                if cl is None or any(c in ('Exception', 'BaseException') for c in cl):
                    covered = h
        rep.ob('C14.R2', ctx.loc(f, d.ast), 'for ... in %s inside try/except Exception' % ctx.src(d.ast.iter, 50), covered is not None,
               'errors raised while the style parser runs reach the containment handler' if covered is not None else
               'the style parser is driven outside a handler for Exception: a parse error of one docstring aborts collection of the module', anchor=PDE)
        hcover = hcover or covered
    if hcover is None:
        return
    hn = g._handler_nodes.get((id(hcover), ()))
    exname = hcover.name
    body_ids = set(id(n) for n in g.nodes if any(fr.kind == 'try' and getattr(fr, 'handler', None) is hcover for fr in n.frames))
    warns = [n for n in g.nodes if id(n) in body_ids and any(ast.unparse(c.func) == 'warnings.warn' for c in node_calls(n))]
    # per exception class: does the handler complete normally?
    def truth_under(e, cls, node, depth=0):
        """truth value of test expression e when the caught exception is an instance of exactly `cls` ('Other' = none of the library errors); None if undecided"""
        if isinstance(e, ast.Call) and is_name(e.func, 'isinstance') and len(e.args) == 2 and is_name(e.args[0], exname):
            cexpr = e.args[1]
            if isinstance(cexpr, ast.Name):
                # the classes held in a local (`tolerated = (A, B)`)
                ds_ = [d for d in rd.defs_of(cexpr.id) if isinstance(d.value, ast.AST)]
                if len(ds_) == 1 and isinstance(ds_[0].value, (ast.Tuple, ast.Attribute, ast.Name)):
                    cexpr = ds_[0].value
            names = {x.attr if isinstance(x, ast.Attribute) else x.id for x in ast.walk(cexpr) if isinstance(x, (ast.Attribute, ast.Name))}
            if 'Exception' in names:
                return True
            return cls in names
        if isinstance(e, ast.UnaryOp) and isinstance(e.op, ast.Not):
            t = truth_under(e.operand, cls, node, depth)
            return None if t is None else not t
        if isinstance(e, ast.BoolOp):
            ts = [truth_under(v, cls, node, depth) for v in e.values]
            if isinstance(e.op, ast.And):
                if any(t is False for t in ts):
                    return False
                return True if all(t is True for t in ts) else None
            if any(t is True for t in ts):
                return True
            return False if all(t is False for t in ts) else None
        if isinstance(e, ast.Name) and depth < 3:
            ds = rd.at(node, e.id)
            if len(ds) == 1 and ds[0].kind == 'assign' and isinstance(ds[0].value, ast.AST):
                return truth_under(ds[0].value, cls, ds[0].node, depth + 1)
        return None

    def class_filter(cls):
        def ef(a, b, kind, tok):
            if kind != 'n':
                return False
            if b.kind == 'branch' and b.attrs['test'].kind == 'test' and b.attrs['polarity'] in (True, False):
                truth = truth_under(b.attrs['test'].ast, cls, b.attrs['test'])
                if truth is not None and b.attrs['polarity'] != truth:
                    return False
            return True
        return ef
    swallowed = {}
    for cls in ('MalformedDocstr', 'DoctestParseError', 'Other'):
        out = graph.path([hn], lambda x: id(x) not in body_ids and x is not g.raise_exit and x is not hn, efilter=class_filter(cls))
        swallowed[cls] = out is not None
    ok = swallowed == {'MalformedDocstr': True, 'DoctestParseError': True, 'Other': False}
    rep.ob('C14.R2', ctx.loc(f, hcover), 'handler completes for: %s' % sorted(k for k, v in swallowed.items() if v), ok,
           'exactly the two library errors are downgraded to a warning; every other class is re-raised' if ok else
           'handler outcome per class %s (required: MalformedDocstr and DoctestParseError complete, everything else is re-raised)' % swallowed, anchor=PDE)
    # every normal completion of the handler passed warnings.warn and is followed by no yield
    wit = graph.must_pass([hn], lambda x: id(x) not in body_ids and x is not g.raise_exit and x is not hn, through=warns, efilter=graph.normal_only)
    rep.ob('C14.R2', ctx.loc(f, hcover), 'warning before the handler completes', wit is None and bool(warns),
           'a warnings.warn call lies on every path that completes the handler' if wit is None and warns else 'a broken docstring can be dropped without a warning',
           witness=None if wit is None else graph.fmt_path(wit, f.module.relpath), anchor=PDE)
    after = graph.reachable([hn], efilter=graph.normal_only)
    y_after = [y for y in ys if any(y is x for x in after)]
    rep.ob('C14.R2', ctx.loc(f, hcover), 'no example after a parse error', not y_after,
           'no yield is reachable once the handler ran' if not y_after else 'examples are yielded after the docstring failed to parse', anchor=PDE)
    # default: re-raise
    else_raise = graph.path([hn], lambda x: x.kind == 'stmt' and isinstance(x.ast, ast.Raise) and x.ast.exc is None, efilter=graph.normal_only)
    rep.ob('C14.R2', ctx.loc(f, hcover), 'other exception classes are re-raised', else_raise is not None,
           'a bare raise is reachable in the handler' if else_raise is not None else 'the handler swallows every exception class', anchor=PDE)
    # attributes read from the parse error exist
    fe = ctx.func(DPE + '.__init__')
    stored = {t.attr for n in ast.walk(fe.node) if isinstance(n, ast.Assign) for t in n.targets if isinstance(t, ast.Attribute) and is_name(t.value, 'self')}
    read = {}
    for n in g.nodes:
        if id(n) in body_ids and n.kind in ('stmt', 'test') and isinstance(n.ast, ast.AST):
            for x in ast.walk(n.ast):
                if isinstance(x, ast.Attribute) and is_name(x.value, exname) and isinstance(x.ctx, ast.Load):
                    read.setdefault(x.attr, x)
    for attr, x in sorted(read.items()):
        rep.ob('C14.R2', ctx.loc(f, x), '%s.%s' % (exname, attr), attr in stored or attr in ('args',),
               'attribute stored by DoctestParseError.__init__' if attr in stored else 'the handler reads .%s which DoctestParseError never sets: AttributeError inside the containment handler' % attr,
               nontrivial=False, anchor=PDE)


# ---------------------------------------------------------------------------
def r3_style_dispatch(ctx):
    rep = ctx.rep
    q = 'xdoctest.core.parse_auto_docstr_examples'
    f = ctx.func(q)
    g = ctx.cfg(f)
    dom = ctx.dom(g, g.entry)
    ff = [(n, c) for n in g.nodes for c in (node_calls(n) if n.kind != 'for_init' else ([n.ast] if isinstance(n.ast, ast.Call) else []))
          if isinstance(c, ast.Call) and ctx.res.resolve_call(f, c)[0] == 'repo' and ctx.res.resolve_call(f, c)[1][0].qualname == 'xdoctest.core.parse_freeform_docstr_examples']
    need(ff, 'C14.R3: freeform attempt not found in the auto style')
    for (n, c) in ff:
        loops = [x for x in g.nodes if x.kind == 'for' and x.ast.iter is c]
        where = loops[0] if loops else n
        in_try = any(fr.kind == 'try' and fr.phase == 'body' for fr in where.frames)
        rep.ob('C14.R3', ctx.loc(f, c), ctx.src(c, 70), not in_try,
               'the freeform attempt is not inside a try of the auto dispatcher: its parse error reaches the containment handler' if not in_try else
               'the freeform attempt runs inside a try of the dispatcher: its DoctestParseError may be swallowed silently', anchor=q)
    # the google handler re-raises only when examples were found
    raises = [n for n in g.nodes if n.kind == 'stmt' and isinstance(n.ast, ast.Raise) and not n.dup and any(fr.kind == 'try' and getattr(fr, 'handler', None) is not None for fr in n.frames)]
    rep.ob('C14.R3', ctx.loc(f, f.node), 'the google attempt can re-raise', bool(raises),
           'a raise is present in the handler of the google attempt' if raises else
           'the handler of the google attempt never re-raises: an error after examples were already produced is swallowed -- no warning, no fallback, a truncated list of examples', anchor=q)
    for n in g.nodes:
        if n.kind == 'stmt' and isinstance(n.ast, ast.Raise) and n.ast.exc is None and not n.dup:
            facts = graph.guard_facts(dom, n)
            ok = any(isinstance(fa.expr, ast.Compare) and is_name(fa.expr.left, 'n_found') and fa.polarity is True for fa in facts)
            rep.ob('C14.R3', ctx.loc(f, n.ast), 'google attempt: raise', ok, 're-raised only if examples were already produced' if ok else 'the google attempt re-raises unconditionally (freeform fallback never runs)', anchor=q)
            # ... and as soon as ONE was produced: with the error swallowed after a yielded example the broken docstring gives neither a warning nor the freeform fallback
            for fa in facts:
                e = fa.expr
                if isinstance(e, ast.Compare) and is_name(e.left, 'n_found') and len(e.ops) == 1 and isinstance(e.comparators[0], ast.Constant) and isinstance(e.comparators[0].value, int):
                    c0 = e.comparators[0].value
                    def tv(v, op=e.ops[0], c0=c0):
                        return {ast.Gt: v > c0, ast.GtE: v >= c0, ast.Lt: v < c0, ast.LtE: v <= c0, ast.Eq: v == c0, ast.NotEq: v != c0}.get(type(op))
                    need(tv(0) is not None, 'C14.R3: comparison of the example counter not recognised')
                    good = (tv(1) == fa.polarity) and (tv(0) != fa.polarity) and (tv(2) == fa.polarity)
                    rep.ob('C14.R3', ctx.loc(f, e), 'raise iff %s%s' % ('' if fa.polarity else 'not ', ctx.src(e)), good,
                           're-raised exactly when at least one example was produced' if good else
                           'with exactly one example already produced the error of a later block is swallowed: no warning, no freeform fallback, the good example is silently all there is', anchor=q)
    # every parse() call reachable from the style parsers happens while their generator is driven (inside R2's try)
    reach = _reachable_funcs(ctx, [ctx.func(PDE)])
    parse_callers = [fn for fn in reach if any(isinstance(c, ast.Call) and ctx.res.resolve_call(fn, c)[0] in ('repo', 'method') and
                                               any(x.qualname == PARSE for x in (ctx.res.resolve_call(fn, c)[1] if ctx.res.resolve_call(fn, c)[0] == 'repo' else ctx.res.resolve_call(fn, c)[2]))
                                               for c in walk_scope(fn.node))]
    rep.ob('C14.R3', ctx.loc(ctx.func(PDE), ctx.func(PDE).node), 'callers of DoctestParser.parse below parse_docstr_examples', bool(parse_callers),
           'parse is reached through %s, all generator bodies driven by the contained loop' % sorted(fn.qualname.split('.')[-1] for fn in parse_callers), nontrivial=False, anchor=PDE)


def _reachable_funcs(ctx, roots, skip_modules=('xdoctest._tokenize',)):
    seen = {}
    work = list(roots)
    while work:
        fn = work.pop()
        if fn.qualname in seen or fn.module.name in skip_modules:
            continue
        seen[fn.qualname] = fn
        for c in walk_scope(fn.node):
            if isinstance(c, ast.Call):
                for callee in ctx.res.callees(fn, c):
                    work.append(callee)
            elif isinstance(c, ast.Name) and isinstance(c.ctx, ast.Load):
                # function values (parser = parse_freeform_docstr_examples)
                for r in ctx.res.resolve_name(fn, c.id):
                    if r and r[0] == 'func':
                        work.append(r[1])
        for nested in fn.nested.values():
            work.append(nested)
    return list(seen.values())


def r4_collection_continues(ctx):
    rep = ctx.rep
    q = 'xdoctest.core.parse_doctestables'
    f = ctx.func(q)
    g = ctx.cfg(f)
    loops = [n for n in g.nodes if n.kind == 'for' and not n.dup]
    outer = [l for l in loops if isinstance(l.ast.iter, ast.Call) and isinstance(l.ast.iter.func, ast.Attribute) and l.ast.iter.func.attr == 'items']
    need(outer, 'C14.R4: loop over calldefs.items() not found')
    oh = outer[0]
    gens = [l for l in loops if graph.in_loop_body(l, oh.ast) and isinstance(l.ast.iter, ast.Name)]
    need(gens, 'C14.R4: loops over the per-docstring generator not found')
    for gl in gens:
        done = [b for b in gl.nsucc() if b.kind == 'branch' and b.attrs['polarity'] == 'done']
        p = graph.path(done, lambda x: x is oh, efilter=graph.normal_only)
        rep.ob('C14.R4', ctx.loc(f, gl.ast), 'generator exhausted -> next calldef', p is not None,
               'after the examples of one docstring the loop continues with the next calldef' if p is not None else 'collection does not continue after a docstring', anchor=q)
    jumps = [n for n in g.nodes if n.kind == 'stmt' and isinstance(n.ast, (ast.Break, ast.Return)) and graph.in_loop_body(n, oh.ast)]
    handlers = [n for n in g.nodes if n.kind == 'handler']
    rep.ob('C14.R4', ctx.loc(f, oh.ast), 'no break / return / handler in the calldef loop', not jumps and not handlers,
           'nothing ends the loop early' if not jumps and not handlers else 'the calldef loop can end early (%d jumps, %d handlers)' % (len(jumps), len(handlers)), anchor=q)


# ---------------------------------------------------------------------------
def r5_variants(ctx):
    rep = ctx.rep
    funcs = _reachable_funcs(ctx, [ctx.func(PARSE)])
    whiles = []
    for fn in funcs:
        for n in walk_scope(fn.node):
            if isinstance(n, ast.While):
                whiles.append((fn, n))
    rep.floor('C14.R5', 'while loops reachable from parse', len(whiles), 3)
    rep.note('functions_reachable_from_parse', len(funcs))
    for (fn, w) in whiles:
        g = ctx.cfg(fn)
        heads = [n for n in g.nodes if n.kind == 'test' and n.attrs.get('loop') and n.stmt is w and not n.dup]
        need(heads, 'C14.R5: loop head missing in CFG')
        head = heads[0]
        v = _variant_iterator(ctx, fn, g, head, w) or _variant_decreasing(ctx, fn, g, head, w)
        rep.ob('C14.R5', ctx.loc(fn, w), 'while %s' % ctx.src(w.test, 90), v is not None,
               'variant: %s' % v if v else 'no termination argument recognised for this loop: a crafted docstring may make parsing hang', anchor=fn.qualname)
    # for loops do not grow what they iterate
    n_for = 0
    for fn in funcs:
        for n in walk_scope(fn.node):
            if isinstance(n, ast.For) and isinstance(n.iter, ast.Name):
                n_for += 1
                grows = [c for c in ast.walk(n) if isinstance(c, ast.Call) and isinstance(c.func, ast.Attribute) and c.func.attr in ('append', 'extend', 'insert') and is_name(c.func.value, n.iter.id)]
                if grows:
                    rep.ob('C14.R5', ctx.loc(fn, n), 'for ... in %s' % n.iter.id, False, 'the loop appends to the list it iterates', anchor=fn.qualname)
    rep.ob('C14.R5', 'src/xdoctest/parser.py:1', 'for-loops over named lists never grow them', True, '%d for-loops over named iterables checked' % n_for, nontrivial=False, anchor=PARSE)


def _variant_iterator(ctx, fn, g, head, w):
    """V1: every iteration path executes next(it), `it` a parameter (the finite line iterator)"""
    params = [a.arg for a in fn.node.args.args]
    entry, cut = graph.region_of_loop(g, head)
    nexts = [n for n in g.nodes if graph.in_loop_body(n, w) and any(is_name(c.func, 'next') and c.args and isinstance(c.args[0], ast.Name) and c.args[0].id in params for c in node_calls(n))]
    if not nexts:
        return None
    wit = graph.must_pass([entry], lambda x: x is head, through=nexts, efilter=graph.normal_only)
    if wit is not None:
        return None
    # StopIteration ends the loop: handled outside the loop or propagating
    itname = [c.args[0].id for n in nexts for c in node_calls(n) if is_name(c.func, 'next')][0]
    # the iterator handed in is enumerate(<str>.splitlines()) at every call site
    ok_sites = True
    for caller in ctx.prog.funcs.values():
        if caller.module.name == 'xdoctest._tokenize':
            continue
        for c in walk_scope(caller.node):
            if isinstance(c, ast.Call) and ctx.res.resolve_call(caller, c)[0] == 'repo' and ctx.res.resolve_call(caller, c)[1][0] is fn:
                idx = params.index(itname)
                a = c.args[idx] if len(c.args) > idx else None
                if not isinstance(a, ast.Name):
                    ok_sites = False
                    continue
                rd = ctx.rd(caller)
                gc = ctx.cfg(caller)
                for cn in gc.nodes_containing(c):
                    for d in rd.at(cn, a.id):
                        if not (isinstance(d.value, ast.Call) and is_name(d.value.func, 'enumerate') and 'splitlines()' in ast.unparse(d.value)):
                            ok_sites = False
    if not ok_sites:
        return None
    return 'every iteration consumes one item of `%s` = enumerate(<str>.splitlines()); StopIteration leaves the loop' % itname


def _variant_decreasing(ctx, fn, g, head, w):
    """V2: an integer named in the loop test with a constant lower bound strictly decreases on every path through the body"""
    cands = []
    conj = w.test.values if isinstance(w.test, ast.BoolOp) and isinstance(w.test.op, ast.And) else [w.test]
    for e in conj:
        if isinstance(e, ast.Compare) and len(e.ops) == 1:
            l, op, r = e.left, e.ops[0], e.comparators[0]
            if isinstance(l, ast.Name) and isinstance(r, ast.Constant) and isinstance(r.value, int) and isinstance(op, (ast.Gt, ast.GtE)):
                cands.append(l.id)
            if isinstance(r, ast.Name) and isinstance(l, ast.Constant) and isinstance(l.value, int) and isinstance(op, (ast.Lt, ast.LtE)):
                cands.append(r.id)
    entry, cut = graph.region_of_loop(g, head)
    for x in cands:
        stores = [n for n in g.nodes if graph.in_loop_body(n, w) and n.kind == 'stmt' and not n.dup and
                  any(isinstance(t, ast.Name) and t.id == x and isinstance(t.ctx, ast.Store) for t in ast.walk(n.ast))]
        if not stores:
            continue
        dec = []
        ok = True
        for s in stores:
            k = _decrease_kind(ctx, fn, g, s, x, w)
            if k is None:
                ok = False
            else:
                dec.append((s, k))
        if not ok:
            continue
        wit = graph.must_pass([entry], lambda n: n is head, through=[s for (s, _) in dec], efilter=graph.normal_only)
        if wit is None:
            return '`%s` has a constant lower bound in the loop test and strictly decreases on every path through the body (%s)' % (x, '; '.join(sorted({k for (_, k) in dec})))
    return None


def _decrease_kind(ctx, fn, g, s, x, w):
    a = s.ast
    if isinstance(a, ast.AugAssign) and is_name(a.target, x) and isinstance(a.op, ast.Sub) and isinstance(a.value, ast.Constant) and isinstance(a.value.value, int) and a.value.value > 0:
        return '%s -= %d' % (x, a.value.value)
    if isinstance(a, ast.Assign) and len(a.targets) == 1 and is_name(a.targets[0], x):
        v = a.value
        if isinstance(v, ast.BinOp) and isinstance(v.op, ast.Sub) and is_name(v.left, x) and isinstance(v.right, ast.Constant) and isinstance(v.right.value, int) and v.right.value > 0:
            return '%s = %s - %d' % (x, x, v.right.value)
        # x = y  (or y - k) with the difference bound  y - x <= -1  at this statement
        y = None
        k = 0
        if isinstance(v, ast.Name):
            y = v.id
        elif isinstance(v, ast.BinOp) and isinstance(v.op, ast.Sub) and isinstance(v.left, ast.Name) and isinstance(v.right, ast.Constant) and isinstance(v.right.value, int) and v.right.value >= 0:
            y = v.left.id
            k = v.right.value
        if y is not None and y != x:
            ub = difference_upper_bound(g, y, x)
            b = ub.get(id(s))
            if b is not None and b - k <= -1:
                return '%s = %s with %s - %s <= %d (difference bound)' % (x, ast.unparse(v), y, x, b)
    return None


def difference_upper_bound(g, a, b, cap=50):
    """forward analysis of an upper bound of (a - b) at the entry of every CFG node; None = unknown (+inf)"""
    INF = None

    def join(p, q):
        if p is INF or q is INF:
            return INF
        return max(p, q)

    def lin(e, env_d):
        """value of expression e as (var, offset) with var in {a, b, 'len'} for recognised forms"""
        if isinstance(e, ast.Name) and e.id in (a, b):
            return (e.id, 0)
        if isinstance(e, ast.BinOp) and isinstance(e.op, (ast.Sub, ast.Add)) and isinstance(e.right, ast.Constant) and isinstance(e.right.value, int):
            base = lin(e.left, env_d)
            if base is not None:
                return (base[0], base[1] + (e.right.value if isinstance(e.op, ast.Add) else -e.right.value))
        if isinstance(e, ast.Call) and is_name(e.func, 'len') and len(e.args) == 1:
            return ('len:' + ast.unparse(e.args[0]), 0)
        return None

    def transfer(n, d, sym):
        """d = ub(a-b) before n; sym = {var: (base, off)} symbolic values for a, b when both tied to one base"""
        if n.kind == 'stmt':
            s = n.ast
            if isinstance(s, ast.AugAssign) and isinstance(s.target, ast.Name) and s.target.id in (a, b) and isinstance(s.value, ast.Constant) and isinstance(s.value.value, int) and isinstance(s.op, (ast.Add, ast.Sub)):
                k = s.value.value if isinstance(s.op, ast.Add) else -s.value.value
                sym = dict(sym)
                if s.target.id in sym:
                    sym[s.target.id] = (sym[s.target.id][0], sym[s.target.id][1] + k)
                if d is INF:
                    return INF, sym
                return (d + k if s.target.id == a else d - k), sym
            if isinstance(s, ast.Assign) and len(s.targets) == 1 and isinstance(s.targets[0], ast.Name) and s.targets[0].id in (a, b):
                t = s.targets[0].id
                v = lin(s.value, sym)
                sym = dict(sym)
                if v is None:
                    sym.pop(t, None)
                    return INF, sym
                base, off = v
                if base in (a, b):
                    # t = other/self + off
                    if base == t:
                        sym_t = sym.get(t)
                        if sym_t:
                            sym[t] = (sym_t[0], sym_t[1] + off)
                        if d is INF:
                            return INF, sym
                        return (d + off if t == a else d - off), sym
                    # t = other + off  ->  difference becomes exact
                    if base in sym:
                        sym[t] = (sym[base][0], sym[base][1] + off)
                    else:
                        sym.pop(t, None)
                    return (off if t == a else -off), sym
                # t = len(x) + off
                sym[t] = (base, off)
                if a in sym and b in sym and sym[a][0] == sym[b][0]:
                    return sym[a][1] - sym[b][1], sym
                return INF, sym
            if isinstance(s, ast.Assign):
                # tuple assignment or other stores to a / b -> unknown
                names = {x.id for t in s.targets for x in ast.walk(t) if isinstance(x, ast.Name)}
                if names & {a, b}:
                    sym = {k: v for k, v in sym.items() if k not in names}
                    return INF, sym
        return d, sym
    IN = {id(n): ('bot', {}) for n in g.nodes}
    IN[id(g.entry)] = (INF, {})
    visits = {}
    work = [g.entry]
    while work:
        n = work.pop()
        din, sym = IN[id(n)]
        if din == 'bot':
            continue
        dout, symout = transfer(n, din, sym)
        for t in n.nsucc():
            cur = IN[id(t)]
            if cur[0] == 'bot':
                new = (dout, symout)
            else:
                jd = join(cur[0], dout)
                js = {k: v for k, v in cur[1].items() if symout.get(k) == v}
                new = (jd, js)
            if new != cur:
                visits[id(t)] = visits.get(id(t), 0) + 1
                if visits[id(t)] > cap:
                    new = (INF, {})
                    if cur == new:
                        continue
                IN[id(t)] = new
                work.append(t)
    return {k: (v[0] if v[0] != 'bot' else None) for k, v in IN.items()}


# ---------------------------------------------------------------------------
def r6_directives_checked_at_parse_time(ctx):
    """a malformed directive is broken doctest syntax: it has to surface inside DoctestParser.parse (where it becomes the library's parse
    error and is contained per docstring), i.e. the parser extracts the directives of every source line itself; a line it skips is only
    looked at lazily by DoctestPart.directives at run time, outside any containment (same clause as C04.R8)"""
    from . import c04
    from .common import run_as
    run_as(ctx, c04.r8_break_placement, 'C04.R8', 'C14.R6')


def r2b_containment_handler_is_total(ctx):
    """the handler that downgrades a parse error to a warning must not fail itself: (i) str.format is only called on a template written in the
    source -- once text of the docstring / of the error was appended, braces in it are replacement fields (KeyError / IndexError / ValueError);
    (ii) ensure_unicode (raises on None) is only handed a value that the guarding test has just found non-empty"""
    rep = ctx.rep
    f = ctx.func(PDE)
    g = ctx.cfg(f)
    rd = ctx.rd(f)
    dom = ctx.dom(g, g.entry)
    hnodes = [n for n in g.nodes if not n.dup and any(fr.kind == 'try' and getattr(fr, 'handler', None) is not None for fr in n.frames)]
    n_fmt = n_eu = 0
    for n in hnodes:
        for c in node_calls(n):
            if isinstance(c.func, ast.Attribute) and c.func.attr == 'format':
                recv = c.func.value
                if isinstance(recv, ast.Constant):
                    n_fmt += 1
                    continue
                if isinstance(recv, ast.Name):
                    n_fmt += 1
                    defs = rd.at(n, recv.id)
                    lit = bool(defs) and all(d.kind == 'assign' and isinstance(d.value, ast.AST) and all(isinstance(x, (ast.Constant, ast.BinOp, ast.Add, ast.JoinedStr)) for x in ast.walk(d.value)) for d in defs)
                    rep.ob('C14.R2b', ctx.loc(f, c), ctx.src(c, 70), lit,
                           'the template is a literal of the source' if lit else
                           '`%s` is used as a format template after text was appended to it (%s): a brace in the failing docstring or in the error text is read as a replacement field, and '
                           'KeyError / IndexError / ValueError escapes the handler -- no warning, collection of the module aborts' % (recv.id, sorted({d.kind for d in defs})), anchor=PDE)
            if (isinstance(c.func, ast.Attribute) and c.func.attr == 'ensure_unicode') or is_name(c.func, 'ensure_unicode'):
                n_eu += 1
                arg = ' '.join(ast.unparse(c.args[0]).split()) if c.args else ''
                facts = graph.guard_facts(dom, n)
                ok = any(fa.polarity is True and isinstance(fa.expr, ast.AST) and ' '.join(ast.unparse(fa.expr).split()) in (arg, arg + ' is not None') for fa in facts) or \
                    any(fa.polarity is False and isinstance(fa.expr, ast.AST) and ' '.join(ast.unparse(fa.expr).split()) == arg + ' is None' for fa in facts)
                rep.ob('C14.R2b', ctx.loc(f, c), ctx.src(c, 70), ok,
                       'the argument was just tested to be non-empty' if ok else
                       'ensure_unicode(%s) is not guarded by a test of that same value (guards: %s): for an error whose %s is None it raises ValueError inside the handler' %
                       (arg, fmt_facts([fa for fa in facts if fa.polarity in (True, False)][-3:]), arg.split('.')[-1]), anchor=PDE)
    rep.floor('C14.R2b', 'format calls in the containment handler', n_fmt, 2)
    rep.floor('C14.R2b', 'ensure_unicode calls in the containment handler', n_eu, 1)


def r9_lookahead_in_bounds(ctx):
    """BOUNDS: split_google_docblocks looks one line ahead of a block label.  Every subscript `L[i + k]` over the per-line lists must lie under a
    guard `i + k < len(L)` (strict): with `<=` the label on the very last line of a docstring indexes past the end -- IndexError out of collection"""
    rep = ctx.rep
    f = ctx.func('xdoctest.docstr.docscrape_google.split_google_docblocks')
    g = ctx.cfg(f)
    dom = ctx.dom(g, g.entry)
    n_sub = 0
    for n in g.nodes:
        if n.dup or n.kind not in ('stmt', 'test') or not isinstance(n.ast, ast.AST):
            continue
        for x in ast.walk(n.ast):
            if not (isinstance(x, ast.Subscript) and isinstance(x.ctx, ast.Load) and isinstance(x.slice, ast.BinOp) and isinstance(x.slice.op, ast.Add)
                    and isinstance(x.slice.right, ast.Constant) and isinstance(x.slice.right.value, int) and x.slice.right.value >= 1 and isinstance(x.slice.left, ast.Name)):
                continue
            n_sub += 1
            idx = ' '.join(ast.unparse(x.slice).split())
            facts = [fa for fa in graph.guard_facts(dom, n) + graph.short_circuit_facts(n.ast, x) if fa.polarity in (True, False) and isinstance(fa.expr, ast.Compare)]
            verdict = None
            for fa in facts:
                e = fa.expr
                if len(e.ops) != 1 or ' '.join(ast.unparse(e.left).split()) != idx:
                    continue
                rhs = e.comparators[0]
                if not (isinstance(rhs, ast.Call) and is_name(rhs.func, 'len')):
                    continue
                op = type(e.ops[0])
                strict = (op is ast.Lt and fa.polarity is True) or (op is ast.GtE and fa.polarity is False)
                loose = (op is ast.LtE and fa.polarity is True) or (op is ast.Gt and fa.polarity is False)
                if strict:
                    verdict = True
                elif loose and verdict is None:
                    verdict = False
            need(verdict is not None, 'C14.R9: no bound on the look-ahead index of %s was recognised' % ctx.src(x))
            rep.ob('C14.R9', ctx.loc(f, x), ctx.src(x), verdict,
                   'guarded by `%s < len(...)`' % idx if verdict else
                   'the look-ahead index %s is only bounded by `<= len(...)`: a block label on the last line of the docstring reads one element past the end (IndexError, not contained for google style)' % idx,
                   anchor=f.qualname)
    rep.floor('C14.R9', 'look-ahead subscripts in split_google_docblocks', n_sub, 2)


def r10_docstring_locator_indices_in_bounds(ctx):
    """BOUNDS: the docstring locators of the static collector compute a candidate line index from the number of newline characters in the docstring
    VALUE (`stop - nlines - 1`, `start + nlines`).  That count is not bounded by the number of source lines -- "\\n" escapes in a non-raw
    docstring are newlines of the value but not of the source -- so the candidate has to be range-checked before it indexes the line table:
    unchecked, a long enough run of escapes raises IndexError (collection of the whole module aborts) and a shorter one silently wraps around"""
    rep = ctx.rep
    V = 'xdoctest.static_analysis.TopLevelVisitor'
    n_idx = 0
    for name in ('_find_docstr_startpos_workaround', '_find_docstr_endpos_workaround'):
        f = ctx.func(V + '.' + name)
        g = ctx.cfg(f)
        rd = ctx.rd(f)
        dom = ctx.dom(g, g.entry)
        params = [a.arg for a in f.node.args.args]
        counts = {d.name for d in rd.defs if isinstance(d.value, ast.Call) and isinstance(d.value.func, ast.Attribute) and d.value.func.attr == 'count'}
        need(counts, 'C14.R10: the newline count of the docstring was not found in %s' % name)
        for n in g.nodes:
            if n.dup or n.kind not in ('stmt', 'test') or not isinstance(n.ast, ast.AST):
                continue
            for x in ast.walk(n.ast):
                if not (isinstance(x, ast.Subscript) and isinstance(x.ctx, ast.Load) and isinstance(x.value, ast.Name) and x.value.id in params and isinstance(x.slice, ast.Name)):
                    continue
                idx = x.slice.id
                defs = rd.at(n, idx)
                derived = [d for d in defs if isinstance(d.value, ast.BinOp) and any(isinstance(y, ast.Name) and y.id in counts for y in ast.walk(d.value))]
                if not derived:
                    continue
                n_idx += 1
                minus = any(isinstance(y, ast.Sub) for d in derived for y in ast.walk(d.value))
                plus = any(isinstance(y, ast.Add) for d in derived for y in ast.walk(d.value))
                facts = [fa for fa in graph.guard_facts(dom, n) if fa.polarity in (True, False) and isinstance(fa.expr, ast.Compare) and len(fa.expr.ops) == 1]
                lo_ok = hi_ok = False
                for fa in facts:
                    e, op = fa.expr, type(fa.expr.ops[0])
                    l, r = e.left, e.comparators[0]
                    zero = lambda z: isinstance(z, ast.Constant) and z.value == 0
                    is_len = lambda z: isinstance(z, ast.Call) and is_name(z.func, 'len') and z.args and is_name(z.args[0], x.value.id)
                    if is_name(l, idx) and zero(r):
                        lo_ok = lo_ok or (op is ast.GtE and fa.polarity is True) or (op is ast.Lt and fa.polarity is False)
                    if zero(l) and is_name(r, idx):
                        lo_ok = lo_ok or (op is ast.LtE and fa.polarity is True) or (op is ast.Gt and fa.polarity is False)
                    if is_name(l, idx) and is_len(r):
                        hi_ok = hi_ok or (op is ast.Lt and fa.polarity is True) or (op is ast.GtE and fa.polarity is False)
                    if is_len(l) and is_name(r, idx):
                        hi_ok = hi_ok or (op is ast.Gt and fa.polarity is True) or (op is ast.LtE and fa.polarity is False)
                ok = (lo_ok or not minus) and (hi_ok or not plus)
                rep.ob('C14.R10', ctx.loc(f, x), '%s with %s = %s' % (ctx.src(x), idx, ctx.src(derived[0].value)), ok,
                       'the candidate index is range-checked before it is used' if ok else
                       'the candidate index is computed from the number of newline characters in the docstring value and used unchecked (%s): a docstring with "\\n" escapes has more of them '
                       'than source lines, the index leaves the table (IndexError: the module is not collected at all) or wraps around to an unrelated line' %
                       ('it can be negative' if minus and not lo_ok else 'it can exceed the table'), anchor=f.qualname)
    rep.floor('C14.R10', 'line-table subscripts by a candidate derived from the newline count', n_idx, 2)


def r11_definite_assignment(ctx):
    """an UnboundLocalError inside parsing or collection is neither the library's parse error nor contained per docstring (DEFINITE-ASSIGNMENT, see common.definite_assignment)"""
    from .common import definite_assignment
    definite_assignment(ctx, 'C14.R11', {'xdoctest.parser', 'xdoctest.core', 'xdoctest.static_analysis', 'xdoctest.dynamic_analysis', 'xdoctest.docstr.docscrape_google', 'xdoctest.exceptions'}, 40)


def r13_tokenizer_quote_siblings(ctx):
    """SIBLING-AGREE: the vendored tokenizer (used by is_balanced_statement on every doctest line) describes string literals twice, once per
    quote character.  The two descriptions must be the same pattern up to the quote: a character class that excludes the backslash for one
    quote and not for the other makes the second ambiguous -- an unterminated string then backtracks exponentially and a malformed docstring
    hangs the parser instead of being reported"""
    rep = ctx.rep
    mod = ctx.prog.modules.get('xdoctest._tokenize')
    need(mod is not None, 'C14.R13: the vendored tokenizer module was not found')
    pats = {}
    for st in mod.tree.body:
        if isinstance(st, ast.Assign):
            for x in ast.walk(st.value):
                if isinstance(x, ast.Constant) and isinstance(x.value, str) and len(x.value) > 3 and ("'" in x.value or '"' in x.value) and '[' in x.value:
                    pats.setdefault(x.value, x)
    rep.floor('C14.R13', 'string-literal patterns of the vendored tokenizer', len(pats), 6)
    swap = {39: 34, 34: 39}
    for p_, node in sorted(pats.items()):
        ok = p_.translate(swap) in pats
        rep.ob('C14.R13', '%s:%d' % (mod.relpath, node.lineno), repr(p_)[:70], ok,
               'has its twin for the other quote character' if ok else
               'this pattern has no twin for the other quote character (the same pattern with the quotes exchanged): the two kinds of string literal are tokenized by different '
               'expressions; a class that lost its backslash exclusion makes the escape loop ambiguous, and an unterminated string then backtracks exponentially', anchor='xdoctest._tokenize')


def r12_parser_handlers_reraise(ctx):
    """MUST-RAISE: below DoctestParser.parse nothing swallows an error of the source under analysis.  Every `except` handler in parser.py (the
    labeller, the statement completer, the statement locator) leaves by `raise` on all of its paths: a handler that completes normally would let
    the parser go on after a broken statement -- the earlier examples of the docstring are returned, the broken rest is dropped, and no warning
    is ever issued for it"""
    rep = ctx.rep
    n = 0
    for f in ctx.prog.funcs.values():
        if f.module.name != 'xdoctest.parser' or f.qualname == PARSE:
            continue
        if not any(isinstance(x, ast.ExceptHandler) for x in walk_scope(f.node)):
            continue
        g = ctx.cfg(f)
        for h in g.nodes:
            if h.kind != 'handler' or h.dup:
                continue
            names = {x.attr if isinstance(x, ast.Attribute) else x.id for x in ast.walk(h.ast.type) if isinstance(x, (ast.Attribute, ast.Name))} if h.ast.type is not None else {'BaseException'}
            if names <= {'StopIteration', 'GeneratorExit', 'KeyboardInterrupt'}:
                continue        # iterator protocol / interruption, not an error of the source under analysis
            n += 1
            body = set(id(x) for x in g.nodes if any(fr.kind == 'try' and getattr(fr, 'handler', None) is h.ast for fr in x.frames))
            wit = graph.path([h], lambda x: id(x) not in body and x is not h and x is not g.raise_exit, efilter=graph.normal_only)
            rep.ob('C14.R12', ctx.loc(f, h.ast), 'except %s in %s' % (ctx.src(h.ast.type) if h.ast.type is not None else '', f.name), wit is None,
                   'every path through the handler ends in raise' if wit is None else
                   'this handler can complete normally: the error of a malformed statement is swallowed inside the parser, the rest of the docstring is labelled as if nothing had '
                   'happened and the doctest is returned without its broken part and without a warning', witness=None if wit is None else graph.fmt_path(wit, f.module.relpath), anchor=f.qualname)
    rep.floor('C14.R12', 'exception handlers below parse in parser.py', n, 3)


# ---------------------------------------------------------------------------
from ..selftest import fire, silent      # noqa: E402

PA = 'xdoctest/parser.py'
CO = 'xdoctest/core.py'
VARIANTS = [
    fire('tokenizer-double-quote-class-lost-its-backslash', 'C14.R13', ('xdoctest/_tokenize.py', "                StringPrefix + r'\"[^\\n\"\\\\]*(?:\\\\.[^\\n\"\\\\]*)*' +\n", "                StringPrefix + r'\"[^\\n\"\\\\]*(?:\\\\.[^\\n\"]*)*' +\n")),
    fire('auto-style-never-reraises', 'C14.R3', ('xdoctest/core.py', "        if n_found > 0:\n            raise\n", "        if n_found > 0:\n            pass\n")),
    fire('labeller-swallows-incomplete-statement', 'C14.R12', ('xdoctest/parser.py', "                except exceptions.IncompleteParseError:\n                    raise\n", "                except exceptions.IncompleteParseError:\n                    pass\n")),
    fire('revert-fix-F14-locator-candidate-unchecked', 'C14.R10', ('xdoctest/static_analysis.py', "                if cand_start_ < 0:\n", "                if False:\n")),
    fire('locator-candidate-checked-against-the-wrong-end', 'C14.R10', ('xdoctest/static_analysis.py', "                if cand_start_ < 0:\n", "                if cand_start_ >= len(sourcelines):\n")),
    fire('warning-text-formatted-after-user-text-was-appended', 'C14.R2b', ('xdoctest/core.py', "        msg = msg.format(callname, modpath, lineno, repr(ex))\n        if isinstance(ex, exceptions.DoctestParseError):\n", "        if isinstance(ex, exceptions.DoctestParseError):\n"),
         ('xdoctest/core.py', "        # Always warn when something bad is happening.\n", "        msg = msg.format(callname, modpath, lineno, repr(ex))\n        # Always warn when something bad is happening.\n")),
    fire('caret-help-guarded-by-another-attribute', 'C14.R2b', ('xdoctest/core.py', "                if ex.orig_ex.text:\n", "                if ex.orig_ex.msg:\n")),
    fire('auto-style-swallows-error-after-one-example', 'C14.R3', ('xdoctest/core.py', "        if n_found > 0:\n            raise\n", "        if n_found > 1:\n            raise\n")),
    fire('lookahead-bound-not-strict', 'C14.R9', ('xdoctest/docstr/docscrape_google.py', "            if line_num + 1 < len(docstr_lines):\n", "            if line_num + 1 <= len(docstr_lines):\n")),
    fire('parse-error-reads-syntaxerror-msg', 'C14.R7', ('xdoctest/exceptions.py', "        super(DoctestParseError, self).__init__(msg)\n", "        if orig_ex is not None:\n            msg = '{}: {}'.format(msg, orig_ex.msg)\n        super(DoctestParseError, self).__init__(msg)\n")),
    silent('parse-error-reads-msg-of-syntaxerrors-only', ('xdoctest/exceptions.py', "        super(DoctestParseError, self).__init__(msg)\n", "        if isinstance(orig_ex, SyntaxError):\n            msg = '{}: {}'.format(msg, orig_ex.msg)\n        super(DoctestParseError, self).__init__(msg)\n")),
    silent('parse-error-formats-the-exception', ('xdoctest/exceptions.py', "        super(DoctestParseError, self).__init__(msg)\n", "        if orig_ex is not None:\n            msg = '{}: {}'.format(msg, orig_ex)\n        super(DoctestParseError, self).__init__(msg)\n")),
    fire('line-table-split-on-newline-only', 'C14.R8', ('xdoctest/static_analysis.py', "        self.sourcelines = self.source.splitlines()\n", "        self.sourcelines = self.source.split('\\n')\n")),
    silent('line-table-keepends', ('xdoctest/static_analysis.py', "        self.sourcelines = self.source.splitlines()\n", "        self.sourcelines = self.source.splitlines(True)\n")),
    fire('handler-narrowed-to-syntaxerror', 'C14.R1', (PA, "        except Exception as orig_ex:\n\n            if labeled_lines is None:", "        except SyntaxError as orig_ex:\n\n            if labeled_lines is None:")),
    fire('labelling-moved-out-of-try', 'C14.R1',
         (PA, "        try:\n            labeled_lines = self._label_docsrc_lines(string)\n", "        labeled_lines = self._label_docsrc_lines(string)\n        try:\n")),
    fire('handler-returns-empty', 'C14.R1',
         (PA, "            raise exceptions.DoctestParseError(\n                'Failed to parse doctest in {}'.format(failpoint),\n                string=string, info=info, orig_ex=orig_ex)\n", "            return []\n")),
    fire('handler-raises-foreign-class', 'C14.R1',
         (PA, "            raise exceptions.DoctestParseError(\n                'Failed to parse doctest in {}'.format(failpoint),\n                string=string, info=info, orig_ex=orig_ex)\n", "            raise ValueError('Failed to parse doctest in {}'.format(failpoint))\n")),
    fire('failpoint-unbound', 'C14.R1e',
         (PA, "            elif all_parts is None:\n                failpoint = '_package_groups'\n", "            elif all_parts is None and grouped_lines:\n                failpoint = '_package_groups'\n")),
    fire('containment-handler-narrowed', 'C14.R2', (CO, "    except Exception as ex:\n        if global_state.DEBUG_CORE:  # nocover\n            print('Caught an error when parsing')", "    except SyntaxError as ex:\n        if global_state.DEBUG_CORE:  # nocover\n            print('Caught an error when parsing')")),
    fire('parse-error-reraised', 'C14.R2', (CO, "        elif isinstance(ex, exceptions.DoctestParseError):\n            pass\n", "")),
    fire('silent-drop-without-warning', 'C14.R2', (CO, "        print('msg = {}'.format(msg))\n        warnings.warn(msg)\n", "        print('msg = {}'.format(msg))\n")),
    fire('all-errors-swallowed', 'C14.R2', (CO, "        elif isinstance(ex, exceptions.DoctestParseError):\n            pass\n        else:\n            raise\n", "        elif isinstance(ex, exceptions.DoctestParseError):\n            pass\n")),
    fire('handler-reads-missing-attribute', 'C14.R2', (CO, "            msg += '{}\\n'.format(ex.string)\n", "            msg += '{}\\n'.format(ex.docstring)\n")),
    fire('freeform-inside-google-try', 'C14.R3',
         (CO, "    except Exception:\n        if n_found > 0:\n            raise\n\n    # no google style", "        if n_found == 0:\n            for example in parse_freeform_docstr_examples(docstr, *args, **kwargs):\n                yield example\n    except Exception:\n        if n_found > 0:\n            raise\n\n    # no google style")),
    fire('collection-stops-at-first-docstring', 'C14.R4', (CO, "                    for example in example_gen:\n                        yield example\n\n\nif __name__", "                    for example in example_gen:\n                        yield example\n                    break\n\n\nif __name__")),
    fire('while-true-without-consumption', 'C14.R5',
         (PA, "        exec_source_lines = [p[4:] for p in source_lines]\n\n        def _hack_comment_statements(lines):", "        exec_source_lines = [p[4:] for p in source_lines]\n        k = 0\n        while source_lines and not source_lines[k % len(source_lines)].strip():\n            k += 1\n\n        def _hack_comment_statements(lines):")),
    fire('interval-scan-not-decreasing', 'C14.R5', (PA, "                    b = a\n                    a = a - 1\n", "                    b = min(b, a + 1)\n                    a = a - 1\n")),
    fire('inner-scan-without-bound', 'C14.R5', (PA, "only_tokens=True) and a >= 0:\n                        a -= 1\n", "only_tokens=True) and a != 0:\n                        a -= 1\n")),
    silent('decrement-rephrased', (PA, "only_tokens=True) and a >= 0:\n                        a -= 1\n", "only_tokens=True) and a >= 0:\n                        a = a - 1\n")),
    silent('handler-bare-except', (PA, "        except Exception as orig_ex:\n\n            if labeled_lines is None:", "        except BaseException as orig_ex:\n\n            if labeled_lines is None:")),
]
