"""
Section 6 of DESIGN.md: validating the checker both ways.

Variants are produced in memory from the *current* tree by literal source
edits; each must still parse and compile (compiling is not executing).  A
must-fire variant has to produce an unlisted violation of the named rule, a
must-stay-silent variant (a behaviour-preserving refactor) none at all.

A variant whose anchor text is not present in the tree under analysis is
"not applicable on this tree" and skipped.
"""
import importlib
import json
import os
import time
import traceback

from .loader import Program, AnalysisError
from .context import Ctx
from .report import Report, load_known


class V:
    def __init__(self, name, kind, edits, rule=None, note=''):
        self.name = name
        self.kind = kind            # 'fire' | 'silent'
        self.edits = edits          # [(relpath, old, new)] or [(relpath, old, new, count)]
        self.rule = rule            # expected rule id prefix for 'fire'
        self.note = note


def fire(name, rule, *edits, note=''):
    return V(name, 'fire', list(edits), rule, note)


def silent(name, *edits, note=''):
    return V(name, 'silent', list(edits), None, note)


def apply_edits(sources, edits):
    out = dict(sources)
    import re as _re
    for e in edits:
        if e[0] == 're':
            _, relpath, pat, repl = e
            if relpath not in out:
                return None, 'file %s not in tree' % relpath
            new_src, n = _re.subn(pat, repl, out[relpath])
            if n == 0:
                return None, 'anchor pattern not found in %s: %r' % (relpath, pat)
            out[relpath] = new_src
            try:
                compile(new_src, relpath, 'exec', dont_inherit=True)
            except SyntaxError as ex:
                return None, 'edited %s does not compile: %s' % (relpath, ex)
            continue
        relpath, old, new = e[0], e[1], e[2]
        count = e[3] if len(e) > 3 else 1
        if relpath not in out:
            return None, 'file %s not in tree' % relpath
        src = out[relpath]
        n = src.count(old)
        if n == 0:
            return None, 'anchor text not found in %s: %r' % (relpath, old[:60])
        if count == 1 and n != 1:
            return None, 'anchor text ambiguous (%d matches) in %s: %r' % (n, relpath, old[:60])
        out[relpath] = src.replace(old, new) if count != 1 else src.replace(old, new, 1)
        try:
            compile(out[relpath], relpath, 'exec', dont_inherit=True)
        except SyntaxError as ex:
            return None, 'edited %s does not compile: %s' % (relpath, ex)
    return out, None


def analyse(prop, sources, tier='quick', reuse=None):
    """run the rules of one property on a source mapping; no files written.
    returns (code, violations [(rule, anchor, construct, loc, detail)], error)"""
    mod = importlib.import_module('xdstat.rules.%s' % prop.lower())
    try:
        prog = Program(sources, reuse=reuse)
        rep = Report(prop, tier, 0)
        ctx = Ctx(prog, rep)
        mod.run(ctx)
    except AnalysisError as ex:
        return 2, [], 'ANALYSIS-ERROR %s' % ex
    except Exception:
        return 2, [], 'internal error: %s' % traceback.format_exc(limit=4)
    known = [k for k in load_known() if k.get('status') == 'open' and k.get('property') == prop]
    viol = []
    errors = list(rep.errors)
    for o in rep.obligations:
        if o.holds:
            continue
        if any(k['rule'] == o.rule and k.get('anchor') == o.anchor and ' '.join(k['construct'].split())[:200] == o.construct for k in known):
            continue
        viol.append((o.rule, o.anchor, o.construct, o.loc, o.detail))
    if viol:
        return 1, viol, '; '.join(errors) or None
    if errors:
        return 2, [], 'ANALYSIS-ERROR ' + '; '.join(errors)
    return 0, viol, None


def _run_variant(args):
    prop, v, sources = args
    global _BASE
    t0 = time.time()
    edited, why = apply_edits(sources, v.edits)
    if edited is None:
        return {'name': v.name, 'kind': v.kind, 'status': 'not-applicable', 'why': why}
    code, viol, err = analyse(prop, edited, reuse=_BASE)
    res = {'name': v.name, 'kind': v.kind, 'expect_rule': v.rule, 'code': code, 'wall_s': round(time.time() - t0, 3),
           'violations': [{'rule': r, 'anchor': a, 'construct': c, 'at': l} for (r, a, c, l, d) in viol[:6]], 'error': err}
    if v.kind == 'fire':
        hit = [x for x in viol if x[0].startswith(v.rule)]
        res['status'] = 'ok' if (code == 1 and hit) else 'MISSED'
        if code == 1 and not hit:
            res['status'] = 'WRONG-RULE'
    else:
        res['status'] = 'ok' if code == 0 else 'FALSE-ALARM' if code == 1 else 'ANALYSIS-ERROR'
    return res


_BASE = None


def variants_for(prop):
    mod = importlib.import_module('xdstat.rules.%s' % prop.lower())
    return list(getattr(mod, 'VARIANTS', []))


def run_for(prop, prog, jobs=16, only=None):
    vs = variants_for(prop)
    if only:
        vs = [v for v in vs if only in v.name]
    if not vs:
        return None
    sources = prog.sources
    global _BASE
    _BASE = prog
    tasks = [(prop, v, sources) for v in vs]
    results = []
    if jobs > 1 and len(tasks) > 1:
        import multiprocessing as mp
        with mp.get_context('fork').Pool(min(jobs, len(tasks))) as pool:
            results = pool.map(_run_variant, tasks)
    else:
        results = [_run_variant(t) for t in tasks]
    out = {
        'variants': len(results),
        'must_fire': sum(1 for r in results if r['kind'] == 'fire' and r['status'] != 'not-applicable'),
        'fired': sum(1 for r in results if r['kind'] == 'fire' and r['status'] == 'ok'),
        'must_silent': sum(1 for r in results if r['kind'] == 'silent' and r['status'] != 'not-applicable'),
        'silent': sum(1 for r in results if r['kind'] == 'silent' and r['status'] == 'ok'),
        'not_applicable': [r['name'] for r in results if r['status'] == 'not-applicable'],
        'checker_defects': ['%s variant %s: %s %s' % (r['kind'], r['name'], r['status'], r.get('error') or [v['rule'] for v in r.get('violations', [])])
                            for r in results if r['status'] not in ('ok', 'not-applicable')],
        'results': results,
    }
    return out


def attach(prop, st, evidence_dir=None):
    """add the self-test summary to the evidence file just written"""
    from .report import VERIF
    p = os.path.join(evidence_dir or os.path.join(VERIF, 'evidence'), '%s.json' % prop)
    with open(p) as f:
        ev = json.load(f)
    ev['coverage']['selftest'] = {k: st[k] for k in ('variants', 'must_fire', 'fired', 'must_silent', 'silent', 'not_applicable', 'checker_defects')}
    ev['coverage']['selftest']['results'] = [{k: r.get(k) for k in ('name', 'kind', 'status', 'expect_rule', 'wall_s')} for r in st['results']]
    with open(p, 'w') as f:
        json.dump(ev, f, indent=1, default=str)
