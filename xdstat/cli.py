"""
xdstat command line.   check <Cnn>... | --all  [--tier quick|thorough] [--root DIR]

exit 0: every obligation held (KNOWN-FINDING lines possible)
exit 1: at least one unlisted violation (VIOLATION property=<id> replay=<path>)
exit 2: the analysis could not be carried out (ANALYSIS-ERROR ...)
"""
import os
import sys

sys.path.insert(0, os.path.dirname(os.path.dirname(os.path.abspath(__file__))))

import importlib          # noqa: E402
import traceback          # noqa: E402

from xdstat.loader import Program, load_tree, AnalysisError      # noqa: E402
from xdstat.context import Ctx                                     # noqa: E402
from xdstat.report import Report                                   # noqa: E402

CLAIMED = ['C01', 'C02', 'C03', 'C04', 'C05', 'C06', 'C07', 'C08', 'C09', 'C10',
           'C11', 'C12', 'C13', 'C14', 'C15', 'C16', 'C17', 'C18', 'C19', 'C20']


def run_property(prop, prog, tier, seed, evidence_dir=None, quiet=False):
    mod = importlib.import_module('xdstat.rules.%s' % prop.lower())
    rep = Report(prop, tier, seed, evidence_dir=evidence_dir)
    ctx = Ctx(prog, rep)
    rep.explanation = mod.EXPLANATION
    rep.decides = getattr(mod, 'DECIDES', [])
    rep.not_decided = getattr(mod, 'NOT_DECIDED', [])
    mod.run(ctx)
    if tier == 'thorough' and hasattr(mod, 'run_thorough'):
        mod.run_thorough(ctx)
    code, lines, ev = rep.finish(ctx.analysed())
    return code, lines, ev


def main(argv):
    args = list(argv)
    tier = os.environ.get('VERIF_TIER', 'quick')
    root = os.environ.get('XDSTAT_ROOT', '/repo/src')
    evidence_dir = None
    props = []
    selftest = False
    while args:
        a = args.pop(0)
        if a == '--tier':
            tier = args.pop(0)
        elif a == '--root':
            root = args.pop(0)
        elif a == '--evidence-dir':
            evidence_dir = args.pop(0)
        elif a == '--all':
            props = list(CLAIMED)
        elif a == '--selftest':
            selftest = True
        elif a == '--explain':
            import json
            print(json.dumps(json.load(open(args.pop(0))), indent=1))
            return 0
        else:
            props.append(a.upper())
    if tier not in ('quick', 'thorough'):
        tier = 'quick'
    try:
        seed = int(os.environ.get('VERIF_SEED', '0'))
    except ValueError:
        seed = 0
    worst = 0
    try:
        assert 'xdoctest' not in sys.modules
        prog = Program(load_tree(root), root=root)
    except AnalysisError as ex:
        print('ANALYSIS-ERROR %s' % ex)
        return 2
    for prop in props:
        try:
            code, lines, ev = run_property(prop, prog, tier, seed, evidence_dir)
            st = None
            if tier == 'thorough' or selftest:
                from xdstat import selftest as st_mod
                st = st_mod.run_for(prop, prog, jobs=int(os.environ.get('XDSTAT_JOBS', '16')))
                if st is not None:
                    st_mod.attach(prop, st, evidence_dir)
                    if st['checker_defects']:
                        for d in st['checker_defects']:
                            print('ANALYSIS-ERROR self-test: %s' % d)
                        code = max(code, 2) if code != 1 else 1
            for ln in lines:
                print(ln)
            cov = ev['coverage']
            print('%s %s: %d obligations, %d discharged, %d known, %d violation(s) [%s, %.2fs]%s' % (
                prop, 'HOLDS' if code == 0 else ('VIOLATED' if code == 1 else 'ANALYSIS-ERROR'), cov['obligations'], cov['discharged'],
                len(cov['known_findings']), ev['violations'], tier, ev['wall_s'],
                '' if st is None else ' selftest %d/%d fired, %d/%d silent%s' % (st['fired'], st['must_fire'], st['silent'], st['must_silent'],
                                                                                     (', not applicable on this tree: %s' % st['not_applicable']) if st['not_applicable'] else '')))
            worst = max(worst, code) if not (worst == 1 or code == 1) else 1
        except AnalysisError as ex:
            print('ANALYSIS-ERROR property=%s %s' % (prop, ex))
            worst = 2 if worst != 1 else 1
        except Exception:
            print('ANALYSIS-ERROR property=%s internal error' % prop)
            traceback.print_exc()
            worst = 2 if worst != 1 else 1
    assert 'xdoctest' not in sys.modules
    return worst


if __name__ == '__main__':
    sys.exit(main(sys.argv[1:]))
