"""
Obligation sites of `DocTest.run` (RUN), found by role, not by position.
"""
import ast

from .context import need
from .loader import AnalysisError
from .resolve import walk_scope
from .dataflow import field_name
from . import graph

RUN = 'xdoctest.doctest_example.DocTest.run'


def is_self_attr(expr, attr, recv='self'):
    return isinstance(expr, ast.Attribute) and expr.attr == attr and isinstance(expr.value, ast.Name) and expr.value.id == recv


def mentions_self_attr(expr, attr, recv='self'):
    return any(is_self_attr(n, attr, recv) for n in ast.walk(expr))


def calls_in(node_ast):
    if node_ast is None:
        return []
    if isinstance(node_ast, ast.withitem):
        node_ast = node_ast.context_expr
    if isinstance(node_ast, ast.For):
        return []
    return [n for n in ast.walk(node_ast) if isinstance(n, ast.Call)]


def node_calls(n):
    """Call expressions evaluated by CFG node n"""
    if n.kind in ('stmt', 'test', 'for_init', 'with_enter'):
        a = n.ast
        if n.kind == 'stmt' and isinstance(a, (ast.FunctionDef, ast.AsyncFunctionDef, ast.ClassDef)):
            return []
        return calls_in(a)
    return []


class RunRoles:
    def __init__(self, ctx):
        self.ctx = ctx
        self.f = f = ctx.func(RUN)
        self.g = g = ctx.cfg(f)
        self.rd = ctx.rd(f)
        res = ctx.res

        # -- the part loop ------------------------------------------------
        loops = [n for n in g.nodes if n.kind == 'for' and not n.dup and mentions_self_attr(n.ast.iter, '_parts')]
        if len(loops) > 1:
            # several loops over the parts (e.g. one brought in by an expanded helper): the part loop is the one that compiles / executes
            def executes(lp):
                return any(isinstance(c, ast.Call) and isinstance(c.func, ast.Name) and c.func.id in ('compile', 'exec', 'eval') for st in lp.ast.body for c in ast.walk(st))
            loops = [lp for lp in loops if executes(lp)]
        need(len(loops) == 1, 'RUN: expected exactly one loop over self._parts, found %d' % len(loops))
        self.loop = loops[0]
        tgt = self.loop.ast.target
        names = [n.id for n in ast.walk(tgt) if isinstance(n, ast.Name)]
        need(len(names) in (1, 2), 'RUN: unrecognised part-loop target')
        self.part_var = names[-1]
        self.partx_var = names[0] if len(names) == 2 else None
        self.iter_entry, self.cut = graph.region_of_loop(g, self.loop)
        self.loop_nodes = [n for n in g.nodes if graph.in_loop_body(n, self.loop.ast)] + [self.iter_entry]
        self.loop_ids = set(id(n) for n in self.loop_nodes)
        self.done_branch = [b for b in self.loop.nsucc() if b.kind == 'branch' and b.attrs['polarity'] == 'done'][0]

        # -- call sites by resolved callee ---------------------------------
        self.calls = []      # (cfg node, call ast, resolution)
        for n in g.nodes:
            for c in node_calls(n):
                self.calls.append((n, c, res.resolve_call(f, c)))

        def by_builtin(*names):
            return [(n, c) for (n, c, r) in self.calls if r[0] == 'builtin' and r[1] in names]

        def by_repo(qual):
            return [(n, c) for (n, c, r) in self.calls
                    if (r[0] == 'repo' and any(x.qualname == qual for x in r[1]))
                    or (r[0] == 'method' and any(x.qualname == qual for x in r[2]))]

        self.by_builtin = by_builtin
        self.by_repo = by_repo

        # compile sites; the *part* compile is the one whose source depends on the loop variable
        self.compile_sites = by_builtin('compile')
        self.part_compiles = []
        for (n, c) in self.compile_sites:
            src = c.args[0] if c.args else None
            if src is not None and self._depends_on(n, src, self.part_var):
                self.part_compiles.append((n, c))
        need(len(self.part_compiles) >= 1, 'RUN: no compile() of the part source found')

        # exec sites: exec/eval whose code argument is the result of a part compile
        self.exec_sites = []
        self.other_exec = []
        for (n, c) in by_builtin('exec', 'eval'):
            code = c.args[0] if c.args else None
            if code is not None and self._flows_from_calls(n, code, [pc for (_, pc) in self.part_compiles]):
                self.exec_sites.append((n, c))
            else:
                self.other_exec.append((n, c))
        self.check_sites = by_repo('xdoctest.doctest_part.DoctestPart.check')
        self.check_exc_sites = by_repo('xdoctest.checker.check_exception')
        self.update_sites = by_repo('xdoctest.directive.RuntimeState.update')
        self.import_sites = by_repo('xdoctest.doctest_example.DocTest._import_module')
        self.globals_sites = by_repo('xdoctest.doctest_example.DocTest._test_globals')
        self.post_run_sites = by_repo('xdoctest.doctest_example.DocTest._post_run')

        # fail stores: self.exc_info = <not None>
        self.fail_stores = []
        self.exc_resets = []
        for d in self.rd.defs_of('self.exc_info'):
            if isinstance(d.value, ast.Constant) and d.value.value is None:
                self.exc_resets.append(d.node)
            else:
                self.fail_stores.append(d.node)

        # skip records: self._skipped_parts.append(part)
        self.skip_records = []
        for (n, c, r) in self.calls:
            fn = c.func
            if isinstance(fn, ast.Attribute) and fn.attr in ('append', 'add') and is_self_attr(fn.value, '_skipped_parts'):
                self.skip_records.append(n)
        for d in self.rd.defs_of('self._skipped_parts'):
            if d.kind == 'aug':
                self.skip_records.append(d.node)

        # the capture object(s): with-items inside the loop whose context resolves to CaptureStdout
        self.cap_withs = []
        for n in g.nodes:
            if n.kind == 'with_enter' and id(n) in self.loop_ids:
                ci = self._cap_class(n)
                if ci is not None and ci.qualname == 'xdoctest.utils.util_stream.CaptureStdout':
                    self.cap_withs.append(n)

        # tests of the error mode
        self.on_error_param = 'on_error'

    # -- helpers -------------------------------------------------------------
    def _cap_class(self, with_enter):
        ce = with_enter.ast.context_expr
        ci = self.ctx.res.receiver_class(self.f, ce)
        return ci

    def _depends_on(self, node, expr, var, depth=4):
        """expr (evaluated at node) data-depends on local `var` through
        assignments (bounded copy propagation)."""
        seen = set()

        def rec(n, e, d):
            for nm in ast.walk(e):
                if isinstance(nm, ast.Name) and isinstance(nm.ctx, ast.Load):
                    if nm.id == var:
                        return True
                    if d > 0:
                        for df in self.rd.at(n, nm.id):
                            if id(df) in seen:
                                continue
                            seen.add(id(df))
                            v = df.value
                            if isinstance(v, tuple):
                                v = v[1]
                            if isinstance(v, ast.AST) and rec(df.node, v, d - 1):
                                return True
            return False
        return rec(node, expr, depth)

    def _flows_from_calls(self, node, expr, calls):
        """every reaching definition of the Name `expr` is the result of one of `calls`"""
        if not isinstance(expr, ast.Name):
            return any(expr is c for c in calls)
        def rec(n, name, depth):
            defs = self.rd.at(n, name)
            if not defs or depth > 3:
                return False
            for d in defs:
                v = d.value
                if isinstance(v, ast.AST) and any(v is c for c in calls):
                    continue
                if isinstance(v, ast.Name) and rec(d.node, v.id, depth + 1):
                    continue        # a plain copy (e.g. the result variable of an expanded helper)
                return False
            return True
        return rec(node, expr.id, 0)

    def in_loop(self, n):
        return id(n) in self.loop_ids

    def is_on_error_raise_test(self, test_expr):
        """(True, polarity_when_raise) if the expression compares on_error with 'raise'"""
        e = test_expr
        if isinstance(e, ast.Compare) and len(e.ops) == 1 and isinstance(e.left, ast.Name) and e.left.id == self.on_error_param:
            c = e.comparators[0]
            if isinstance(c, ast.Constant) and c.value in ('raise', 'return'):
                eq = isinstance(e.ops[0], (ast.Eq, ast.Is))
                neq = isinstance(e.ops[0], (ast.NotEq, ast.IsNot))
                if eq or neq:
                    raise_when = (c.value == 'raise') == eq
                    return True, raise_when
        return False, None

    def return_mode_filter(self):
        """edge filter that drops the branches taken only when on_error == 'raise'"""
        def ef(a, b, kind, tok):
            if b.kind == 'branch':
                t = b.attrs['test']
                if t.kind == 'test':
                    ok, raise_when = self.is_on_error_raise_test(t.ast)
                    if ok and b.attrs['polarity'] == raise_when:
                        return False
            return True
        return ef

    def raise_mode_filter(self):
        def ef(a, b, kind, tok):
            if b.kind == 'branch':
                t = b.attrs['test']
                if t.kind == 'test':
                    ok, raise_when = self.is_on_error_raise_test(t.ast)
                    if ok and b.attrs['polarity'] != raise_when:
                        return False
            return True
        return ef


_cache = {}


def run_roles(ctx):
    k = id(ctx)
    if k not in _cache:
        _cache.clear()
        _cache[k] = RunRoles(ctx)
    return _cache[k]
