"""
L2: statement-level control-flow graph with exceptional edges.

* every If/While test is followed by two synthetic `branch` nodes (polarity
  True / False); a For head by `iter` / `done` branch nodes.  Edge dominance
  ("the T edge of test X dominates S") is node dominance of a branch node.
* `finally` bodies are instantiated once per continuation (normal, return,
  break, continue, and once per exception token).
* `with` is lowered to with_enter -> body -> with_exit on *all* exits (the
  language guarantee); __exit__ is assumed not to suppress exceptions.
* exceptional edges carry a token: ('exact', C) an instance of exactly class
  C; ('sub', C) some subclass of C; ('nonexc',) a BaseException that is not an
  Exception (KeyboardInterrupt, SystemExit, GeneratorExit, pytest outcomes);
  ('live',) the exception that is live in the caller (bare raise outside a
  handler).
"""
import ast
from .loader import AnalysisError, builtin_exception_bases


class Node:
    __slots__ = ('id', 'kind', 'ast', 'stmt', 'succ', 'pred', 'frames', 'attrs', 'dup')

    def __init__(self, id, kind, ast_node=None, stmt=None, frames=(), dup=(), **attrs):
        self.id = id
        self.kind = kind
        self.ast = ast_node
        self.stmt = stmt if stmt is not None else ast_node
        self.succ = []      # (node, 'n'|'e', token)
        self.pred = []
        self.frames = frames
        self.attrs = attrs
        self.dup = dup

    @property
    def lineno(self):
        for n in (self.ast, self.stmt):
            ln = getattr(n, 'lineno', None)
            if ln is not None:
                return ln
            if isinstance(n, ast.withitem):
                return n.context_expr.lineno
        return 0

    def nsucc(self):
        return [t for (t, k, _) in self.succ if k == 'n']

    def esucc(self):
        return [(t, tok) for (t, k, tok) in self.succ if k == 'e']

    def describe(self):
        if self.kind == 'branch':
            return 'branch[%s]@%d' % (self.attrs['polarity'], self.lineno)
        if self.kind in ('entry', 'exit', 'raise'):
            return self.kind
        tag = ''
        if self.dup:
            tag = '{%s}' % ','.join(str(d[1]) for d in self.dup)
        return '%s@%d%s' % (self.kind, self.lineno, tag)

    def __repr__(self):
        return '<N%d %s>' % (self.id, self.describe())


class Frame:
    def __init__(self, kind, stmt, **kw):
        self.kind = kind          # 'try' | 'finally' | 'with' | 'loop'
        self.stmt = stmt
        self.__dict__.update(kw)

    def __repr__(self):
        return '<Frame %s@%s %s>' % (self.kind, getattr(self.stmt, 'lineno', '?'), getattr(self, 'phase', ''))


class ExcModel:
    """Exception class relations + the may-raise policy of expressions."""

    # callee names (as written, last attribute or bare name) that never raise
    # for the arguments the repository passes them, or whose only failure is
    # configuration (closed stream, warnings-as-errors)
    NORAISE_NAMES = {
        'print', 'len', 'isinstance', 'hasattr', 'id', 'type', 'repr_', 'bool', 'callable',
        'format', 'append', 'extend', 'clear', 'keys', 'values', 'items', 'copy', 'get', 'setdefault',
        'startswith', 'endswith', 'strip', 'lstrip', 'rstrip', 'lower', 'upper', 'join', 'split',
        'splitlines', 'replace', 'expandtabs', 'count', 'find', 'rfind', 'exc_info', 'time', 'add',
        'warn', 'sorted', 'set', 'list', 'dict', 'tuple', 'enumerate', 'zip', 'range', 'sum', 'max',
        'min', 'str', 'hex', 'update', 'format_tb', 'format_exc', 'format_exception',
        'format_exception_only', 'insert', 'log', '_log', '_debug', 'cprint', 'get_running_loop_',
        'isatty', 'OrderedDict', 'deque', 'escape', 'getvalue', 'catch_warnings',
    }

    def __init__(self, prog=None, module=None):
        self.prog = prog
        self.module = module
        self._bases_cache = {}

    # -- class relation ---------------------------------------------------
    def canon(self, expr, module=None):
        """canonical class name of an expression naming an exception class,
        or ('?', text) for an unresolvable external."""
        module = module or self.module
        if isinstance(expr, str):
            return expr
        if self.prog is not None and module is not None:
            r = self.prog.resolve_expr_static(module, expr)
            if r is not None:
                if r[0] == 'class':
                    return r[1].qualname
                if r[0] == 'ext':
                    dotted = r[1]
                    last = dotted.split('.')[-1]
                    if dotted.startswith('builtins.') and builtin_exception_bases(last):
                        return last
                    return '?' + dotted
        if isinstance(expr, ast.Name) and builtin_exception_bases(expr.id):
            return expr.id
        return '?' + ast.unparse(expr)

    def bases(self, cname):
        """list of ancestor canonical names including itself; None if unknown"""
        if cname in self._bases_cache:
            return self._bases_cache[cname]
        res = None
        b = builtin_exception_bases(cname)
        if b is not None:
            res = b
        elif self.prog is not None and cname in self.prog.classes:
            ci = self.prog.classes[cname]
            res = [cname]
            for base in ci.bases:
                bc = self.canon(base, ci.module)
                bb = self.bases(bc)
                if bb is None:
                    # unknown external base: assume Exception subclass
                    bb = [bc, 'Exception', 'BaseException']
                for x in bb:
                    if x not in res:
                        res.append(x)
        self._bases_cache[cname] = res
        return res

    def issub(self, c, h):
        b = self.bases(c)
        return b is not None and h in b

    def match(self, token, hclasses):
        """hclasses: None (bare except) or list of canonical names.
        returns ('all'|'some'|'none', narrowed_token)"""
        if hclasses is None:
            return 'all', token
        best = 'none'
        narrowed = token
        for h in hclasses:
            r, nt = self._match1(token, h)
            if r == 'all':
                return 'all', token
            if r == 'some' and best == 'none':
                best = 'some'
                narrowed = nt
        return best, narrowed

    def _match1(self, token, h):
        kind = token[0]
        unknown = h.startswith('?')
        if kind == 'live':
            if h == 'BaseException':
                return 'all', token
            return 'some', token
        if kind == 'exact':
            if unknown:
                return 'none', token
            return ('all', token) if self.issub(token[1], h) else ('none', token)
        if kind == 'sub':
            c = token[1]
            if unknown:
                if c in ('Exception', 'BaseException'):
                    return 'some', token
                return 'none', token
            if self.issub(c, h):
                return 'all', token
            if self.issub(h, c):
                return 'some', ('sub', h)
            return 'none', token
        if kind == 'nonexc':
            if h == 'BaseException':
                return 'all', token
            if unknown:
                return 'some', token
            if self.issub(h, 'BaseException') and not self.issub(h, 'Exception'):
                return 'some', token
            return 'none', token
        raise AssertionError(token)

    NORETURN = ('pytest.skip', 'pytest.fail', 'pytest.exit', 'pytest.xfail', 'sys.exit', 'os._exit', 'exit', 'quit')

    def is_noreturn(self, call):
        try:
            return ast.unparse(call.func) in self.NORETURN
        except Exception:
            return False

    # -- may-raise policy ---------------------------------------------------
    def call_raises(self, call, node):
        """tokens a call expression may raise.  Overridable by rule families."""
        f = call.func
        name = f.attr if isinstance(f, ast.Attribute) else (f.id if isinstance(f, ast.Name) else None)
        if name in self.NORAISE_NAMES:
            return set()
        if name in ('exec', 'eval') or (name == 'run' and isinstance(f, ast.Attribute) and isinstance(f.value, ast.Name) and f.value.id == 'asyncio'):
            return {('sub', 'Exception'), ('nonexc',)}
        return {('sub', 'Exception')}

    def expr_raises(self, expr, node):
        toks = set()
        if expr is None:
            return toks
        for sub in _walk_no_nested(expr):
            if isinstance(sub, ast.Call):
                toks |= self.call_raises(sub, node)
            elif isinstance(sub, ast.Subscript) and isinstance(sub.ctx, ast.Load):
                if not isinstance(sub.slice, ast.Slice):
                    toks.add(('sub', 'Exception'))
            elif isinstance(sub, (ast.Await, ast.YieldFrom)):
                toks.add(('sub', 'Exception'))
        return toks


def _walk_no_nested(expr):
    """walk an expression without entering lambdas / comprehensions' nested
    function scopes are still part of evaluation, so they ARE entered;
    only Lambda bodies are skipped."""
    work = [expr]
    while work:
        n = work.pop()
        yield n
        for c in ast.iter_child_nodes(n):
            if isinstance(c, ast.Lambda):
                continue
            work.append(c)


SIMPLE = (ast.Expr, ast.Assign, ast.AugAssign, ast.AnnAssign, ast.Pass, ast.Delete,
          ast.Import, ast.ImportFrom, ast.Global, ast.Nonlocal, ast.FunctionDef,
          ast.AsyncFunctionDef, ast.ClassDef, ast.Assert)


class CFG:
    def __init__(self, fnode, excmodel=None, label=None):
        self.fnode = fnode
        self.label = label or getattr(fnode, 'name', '<module>')
        self.exc = excmodel or ExcModel()
        self.nodes = []
        self.by_ast = {}
        self._fin_cache = {}
        self._wx_cache = {}
        self._handler_nodes = {}     # (id(handler ast), dup) -> node
        self._pending = []
        self.entry = self._new('entry')
        self.exit = self._new('exit')
        self.raise_exit = self._new('raise')
        body = fnode.body
        frontier = self._block(body, [self.entry], (), ())
        self._link(frontier, self.exit)
        self._resolve_exceptions()

    # -- construction helpers ----------------------------------------------
    def _new(self, kind, ast_node=None, stmt=None, frames=(), dup=(), **attrs):
        n = Node(len(self.nodes), kind, ast_node, stmt, frames, dup, **attrs)
        self.nodes.append(n)
        if ast_node is not None and kind not in ('branch', 'finally_enter'):
            self.by_ast.setdefault(id(ast_node), []).append(n)
        if kind not in ('entry', 'exit', 'raise', 'branch'):
            self._pending.append(n)
        return n

    def _edge(self, a, b, kind='n', token=None):
        for (t, k, tok) in a.succ:
            if t is b and k == kind and tok == token:
                return
        a.succ.append((b, kind, token))
        b.pred.append((a, kind, token))

    def _link(self, frontier, node):
        for f in frontier:
            self._edge(f, node)

    def _branch(self, test, polarity, frames, dup):
        b = self._new('branch', test.ast, test.stmt, frames, dup, polarity=polarity, test=test)
        self._edge(test, b)
        return b

    # -- blocks --------------------------------------------------------------
    def _block(self, stmts, frontier, frames, dup):
        for s in stmts:
            if not frontier:
                break       # unreachable code after return/raise/break
            frontier = self._stmt(s, frontier, frames, dup)
        return frontier

    def _stmt(self, s, frontier, frames, dup):
        if isinstance(s, ast.Pass) and getattr(s, '_leave_id', None) is not None:
            # jump to the end of an expanded helper body (loader._InlineNewHelpers)
            n = self._new('stmt', s, s, frames, dup)
            self._link(frontier, n)
            blk = None
            for fr in reversed(frames):
                if fr.kind == 'inlined' and fr.block_id == s._leave_id:
                    blk = fr
                    break
            if blk is None:
                raise AnalysisError('jump out of an expanded helper without its block at line %d' % s.lineno)
            blk.leaves.extend(self._unwind([n], frames, dup, blk, 'break'))
            return []
        if isinstance(s, ast.If) and getattr(s, '_inlined_block_id', None) is not None:
            blk = Frame('inlined', s, block_id=s._inlined_block_id, leaves=[])
            ends = self._block(s.body, frontier, frames + (blk,), dup)
            return ends + blk.leaves
        if isinstance(s, SIMPLE):
            n = self._new('stmt', s, s, frames, dup)
            self._link(frontier, n)
            if isinstance(s, ast.Expr) and isinstance(s.value, ast.Call) and self.exc.is_noreturn(s.value):
                # pytest.skip(), sys.exit(): never completes normally
                n.attrs['noreturn'] = True
                return []
            return [n]
        if isinstance(s, ast.Return):
            n = self._new('stmt', s, s, frames, dup)
            self._link(frontier, n)
            ends = self._unwind([n], frames, dup, None, 'return')
            self._link(ends, self.exit)
            return []
        if isinstance(s, ast.Raise):
            n = self._new('stmt', s, s, frames, dup)
            self._link(frontier, n)
            return []
        if isinstance(s, (ast.Break, ast.Continue)):
            n = self._new('stmt', s, s, frames, dup)
            self._link(frontier, n)
            loop = None
            for fr in reversed(frames):
                if fr.kind == 'loop':
                    loop = fr
                    break
            if loop is None:
                raise AnalysisError('break/continue outside loop at line %d' % s.lineno)
            ends = self._unwind([n], frames, dup, loop, 'break' if isinstance(s, ast.Break) else 'continue')
            if isinstance(s, ast.Break):
                loop.breaks.extend(ends)
            else:
                self._link(ends, loop.head)
            return []
        if isinstance(s, ast.If):
            return self._if(s, frontier, frames, dup)
        if isinstance(s, ast.While):
            return self._while(s, frontier, frames, dup)
        if isinstance(s, ast.For):
            return self._for(s, frontier, frames, dup)
        if isinstance(s, ast.Try):
            return self._try(s, frontier, frames, dup)
        if isinstance(s, ast.With):
            return self._with(s, 0, frontier, frames, dup)
        raise AnalysisError('unsupported statement kind %s at line %d in %s' % (
            type(s).__name__, getattr(s, 'lineno', 0), self.label))

    def _const_test(self, test):
        if isinstance(test, ast.Constant):
            return bool(test.value)
        return None

    def _if(self, s, frontier, frames, dup):
        c = self._const_test(s.test)
        if c is not None:
            return self._block(s.body if c else s.orelse, frontier, frames, dup)
        t = self._new('test', s.test, s, frames, dup)
        self._link(frontier, t)
        bt = self._branch(t, True, frames, dup)
        bf = self._branch(t, False, frames, dup)
        out = self._block(s.body, [bt], frames, dup)
        out += self._block(s.orelse, [bf], frames, dup)
        return out

    def _while(self, s, frontier, frames, dup):
        c = self._const_test(s.test)
        t = self._new('test', s.test, s, frames, dup, loop=True)
        self._link(frontier, t)
        loop = Frame('loop', s, head=t, breaks=[])
        inner = frames + (loop,)
        out = []
        if c is not False:
            bt = self._branch(t, True, frames, dup)
            ends = self._block(s.body, [bt], inner, dup)
            self._link(ends, t)
        if c is not True:
            bf = self._branch(t, False, frames, dup)
            out += self._block(s.orelse, [bf], frames, dup)
        out += loop.breaks
        return out

    def _for(self, s, frontier, frames, dup):
        init = self._new('for_init', s.iter, s, frames, dup)
        self._link(frontier, init)
        head = self._new('for', s, s, frames, dup, loop=True)
        self._edge(init, head)
        loop = Frame('loop', s, head=head, breaks=[])
        inner = frames + (loop,)
        bi = self._branch(head, 'iter', frames, dup)
        bd = self._branch(head, 'done', frames, dup)
        ends = self._block(s.body, [bi], inner, dup)
        self._link(ends, head)
        out = self._block(s.orelse, [bd], frames, dup)
        out += loop.breaks
        return out

    def _with(self, s, idx, frontier, frames, dup):
        item = s.items[idx]
        enter = self._new('with_enter', item, s, frames, dup)
        self._link(frontier, enter)
        wf = Frame('with', s, item=item, idx=idx)
        inner = frames + (wf,)
        if idx + 1 < len(s.items):
            ends = self._with(s, idx + 1, [enter], inner, dup)
        else:
            ends = self._block(s.body, [enter], inner, dup)
        if not ends:
            return []
        wx = self._new('with_exit', item, s, frames, dup, mode='normal')
        self._link(ends, wx)
        return [wx]

    def _try(self, s, frontier, frames, dup):
        outer = frames
        if s.finalbody:
            ff = Frame('finally', s)
            frames = frames + (ff,)
        tf_body = Frame('try', s, phase='body')
        ends = self._block(s.body, frontier, frames + (tf_body,), dup)
        # orelse: not protected by the handlers
        if s.orelse:
            tf_else = Frame('try', s, phase='orelse')
            ends = self._block(s.orelse, ends, frames + (tf_else,), dup)
        # handlers
        for hi, h in enumerate(s.handlers):
            tf_h = Frame('try', s, phase='handler', handler=h, hindex=hi)
            hframes = frames + (tf_h,)
            hclasses = self._handler_classes(h)
            hn = self._new('handler', h, s, hframes, dup, classes=hclasses, incoming=set())
            tf_h.node = hn
            self._handler_nodes[(id(h), dup)] = hn
            ends += self._block(h.body, [hn], hframes, dup)
        if s.finalbody and ends:
            ends = self._finally_copy(s, ends, outer, dup, ('normal',))
        return ends

    def _handler_classes(self, h):
        if h.type is None:
            return None
        elts = h.type.elts if isinstance(h.type, ast.Tuple) else [h.type]
        return [self.exc.canon(e) for e in elts]

    def _finally_copy(self, s, sources, outer_frames, dup, cont):
        """instantiate the finalbody of try-statement s for continuation
        `cont`; returns the frontier after it."""
        ndup = dup + ((s.lineno, cont if isinstance(cont, str) else cont[0] if cont[0] != 'exc' else 'exc:' + _tok_str(cont[1])),)
        marker = self._new('finally_enter', None, s, outer_frames, ndup, cont=cont)
        self._link(sources, marker)
        return self._block(s.finalbody, [marker], outer_frames, ndup)

    def _unwind(self, sources, frames, dup, stop_frame, why):
        """run the cleanup code between a jump statement and its target."""
        ends = list(sources)
        fl = list(frames)
        while fl:
            fr = fl.pop()
            if fr is stop_frame:
                break
            if fr.kind == 'with':
                wx = self._new('with_exit', fr.item, fr.stmt, tuple(fl), dup, mode=why)
                self._link(ends, wx)
                ends = [wx]
            elif fr.kind == 'finally':
                ends = self._finally_copy(fr.stmt, ends, tuple(fl), dup, (why,))
                if not ends:
                    return []
        return ends

    # -- exceptions ----------------------------------------------------------
    def _node_raises(self, n):
        """tokens raised by evaluating node n (not counting handler re-raise)"""
        exc = self.exc
        if n.kind == 'stmt':
            s = n.ast
            if isinstance(s, ast.Raise):
                toks = set()
                if s.exc is not None:
                    toks |= exc.expr_raises(s.exc, n)
                toks |= self._raise_tokens(n)
                return toks
            if isinstance(s, ast.Assert):
                if not getattr(exc, 'asserts_raise', True):
                    return exc.expr_raises(s.test, n)
                return exc.expr_raises(s.test, n) | {('exact', 'AssertionError')}
            if isinstance(s, (ast.FunctionDef, ast.AsyncFunctionDef, ast.ClassDef, ast.Pass, ast.Global, ast.Nonlocal)):
                return set()
            if isinstance(s, (ast.Import, ast.ImportFrom)):
                return {('sub', 'Exception')} if getattr(exc, 'imports_raise', False) else set()
            if n.attrs.get('noreturn'):
                return exc.expr_raises(s, n) | {('nonexc',)}
            return exc.expr_raises(s, n)
        if n.kind == 'test':
            return exc.expr_raises(n.ast, n)
        if n.kind == 'for_init':
            return exc.expr_raises(n.ast, n)
        if n.kind == 'for':
            return exc.for_raises(n.ast, n) if hasattr(exc, 'for_raises') else set()
        if n.kind == 'with_enter':
            return exc.expr_raises(n.ast.context_expr, n)
        if n.kind == 'with_exit':
            return exc.with_exit_raises(n.ast, n) if hasattr(exc, 'with_exit_raises') else set()
        return set()

    def _enclosing_handler(self, n):
        for fr in reversed(n.frames):
            if fr.kind == 'try' and fr.phase == 'handler':
                return fr
        return None

    def _raise_tokens(self, n):
        s = n.ast
        if s.exc is None:
            fr = self._enclosing_handler(n)
            if fr is None:
                return {('live',)}
            hn = self._find_handler_node(fr, n)
            n.attrs['reraises'] = True
            return set(hn.attrs['incoming'])
        e = s.exc
        if isinstance(e, ast.Call):
            c = self.exc.canon(e.func)
            if not c.startswith('?') and self.exc.bases(c):
                return {('exact', c)}
            return {('sub', 'Exception')}
        if isinstance(e, ast.Name):
            # handler-bound variable?
            for fr in reversed(n.frames):
                if fr.kind == 'try' and fr.phase == 'handler' and fr.handler.name == e.id:
                    if not _name_rebound(fr.handler, e.id):
                        hn = self._find_handler_node(fr, n)
                        n.attrs['reraises'] = True
                        return set(hn.attrs['incoming'])
            # local assigned from class constructor calls only
            toks = set()
            ok = True
            found = False
            for sub in ast.walk(self.fnode):
                if isinstance(sub, ast.Assign) and any(isinstance(t, ast.Name) and t.id == e.id for t in sub.targets):
                    found = True
                    if isinstance(sub.value, ast.Call):
                        c = self.exc.canon(sub.value.func)
                        if not c.startswith('?') and self.exc.bases(c):
                            toks.add(('exact', c))
                            continue
                    ok = False
            if found and ok:
                return toks
            # local that only ever holds None or an exception bound by a handler of this function (`last = ex`)
            toks = self._var_of_caught(e.id)
            if toks is not None:
                return toks
            c = self.exc.canon(e)
            if not c.startswith('?') and self.exc.bases(c):
                return {('exact', c)}
            return {('sub', 'Exception')}
        if isinstance(e, ast.Subscript) and isinstance(e.value, ast.Name):
            # raise L[i] where the local list L only ever receives handler-bound exceptions
            toks = self._list_of_caught(e.value.id, n)
            if toks is not None:
                return toks
        c = self.exc.canon(e)
        if not c.startswith('?') and self.exc.bases(c):
            return {('exact', c)}
        return {('sub', 'Exception')}

    def _var_of_caught(self, vname):
        toks = set()
        found = False
        for sub in ast.walk(self.fnode):
            if isinstance(sub, ast.Name) and sub.id == vname and isinstance(sub.ctx, ast.Store):
                p = getattr(sub, '_parent', None)
                if not (isinstance(p, ast.Assign) and len(p.targets) == 1):
                    return None
                v = p.value
                if isinstance(v, ast.Constant) and v.value is None:
                    continue
                if not isinstance(v, ast.Name):
                    return None
                h = None
                cur = getattr(p, '_parent', None)
                while cur is not None and cur is not self.fnode:
                    if isinstance(cur, ast.ExceptHandler) and cur.name == v.id:
                        h = cur
                        break
                    cur = getattr(cur, '_parent', None)
                if h is None:
                    return None
                found = True
                for (hid, dup), hn in self._handler_nodes.items():
                    if hid == id(h):
                        toks |= set(hn.attrs['incoming'])
        return toks if found else None

    def _list_of_caught(self, lname, n):
        toks = set()
        found = False
        for sub in ast.walk(self.fnode):
            if isinstance(sub, ast.Name) and sub.id == lname and isinstance(sub.ctx, ast.Store):
                p = getattr(sub, '_parent', None)
                if not (isinstance(p, ast.Assign) and isinstance(p.value, ast.List) and not p.value.elts):
                    return None
            if isinstance(sub, ast.Call) and isinstance(sub.func, ast.Attribute) and isinstance(sub.func.value, ast.Name) and sub.func.value.id == lname:
                if sub.func.attr != 'append' or len(sub.args) != 1 or not isinstance(sub.args[0], ast.Name):
                    return None
                # the appended name must be bound by an enclosing handler
                h = None
                cur = getattr(sub, '_parent', None)
                while cur is not None and cur is not self.fnode:
                    if isinstance(cur, ast.ExceptHandler) and cur.name == sub.args[0].id:
                        h = cur
                        break
                    cur = getattr(cur, '_parent', None)
                if h is None:
                    return None
                found = True
                for (hid, dup), hn in self._handler_nodes.items():
                    if hid == id(h):
                        toks |= set(hn.attrs['incoming'])
        return toks if found else None

    def _find_handler_node(self, fr, n):
        # the handler node instance with the longest dup prefix of n.dup
        best = None
        for (hid, dup), hn in self._handler_nodes.items():
            if hid == id(fr.handler) and n.dup[:len(dup)] == dup:
                if best is None or len(dup) > len(best.dup):
                    best = hn
        if best is None:
            raise AnalysisError('handler node not found for line %d' % fr.handler.lineno)
        return best

    def _resolve_exceptions(self):
        done = {}       # node id -> tokens already propagated
        rounds = 0
        while True:
            rounds += 1
            if rounds > 200:
                raise AnalysisError('exception propagation did not converge in %s' % self.label)
            changed = False
            self._pending = []
            work = [n for n in list(self.nodes) if n.kind not in ('entry', 'exit', 'raise', 'branch')]
            for n in work:
                raw = self._node_raises(n)        # may mark the node as re-raising
                toks = set(raw)
                own = set(raw)
                if n.attrs.get('reraises'):
                    own = set()
                elif ('live',) in raw:
                    # a callee re-raising "the live exception": inside a handler that is
                    # exactly what the handler caught
                    fr = self._enclosing_handler(n)
                    if fr is not None:
                        own = raw - {('live',)}
                        toks = own | set(self._find_handler_node(fr, n).attrs['incoming'])
                n.attrs['own'] = own
                old = done.setdefault(n.id, set())
                for tok in sorted(toks - old, key=repr):
                    old.add(tok)
                    self._propagate(n, tok)
                    changed = True
            if not changed and not self._pending:
                break

    def _propagate(self, src, token):
        frames = list(src.frames)
        sources = [src]
        dup = src.dup

        def link(sources, target, tok):
            # every edge on which the exception is in flight is exceptional
            for a in sources:
                self._edge(a, target, 'e', tok)
        while frames:
            fr = frames.pop()
            if fr.kind == 'with':
                key = (id(fr.item), dup, token, tuple(id(f) for f in frames))
                wx = self._wx_cache.get(key)
                if wx is None:
                    wx = self._new('with_exit', fr.item, fr.stmt, tuple(frames), dup, mode='exc', token=token)
                    self._wx_cache[key] = wx
                link(sources, wx, token)
                sources = [wx]
            elif fr.kind == 'finally':
                key = (id(fr.stmt), dup, token, tuple(id(f) for f in frames))
                cached = self._fin_cache.get(key)
                if cached is None:
                    marker = self._new('finally_enter', None, fr.stmt, tuple(frames),
                                       dup + ((fr.stmt.lineno, 'exc:' + _tok_str(token)),), cont=('exc', token))
                    ends = self._block(fr.stmt.finalbody, [marker], tuple(frames), marker.dup)
                    cached = (marker, ends)
                    self._fin_cache[key] = cached
                marker, ends = cached
                link(sources, marker, token)
                sources = list(ends)
                if not sources:
                    return
            elif fr.kind == 'try' and fr.phase == 'body':
                for h in fr.stmt.handlers:
                    hn = self._handler_node_for(h, src)
                    res, narrowed = self.exc.match(token, hn.attrs['classes'])
                    if res == 'none':
                        continue
                    if narrowed not in hn.attrs['incoming']:
                        hn.attrs['incoming'].add(narrowed)
                    link(sources, hn, narrowed)
                    if res == 'all':
                        return
            # loop frames and try-frames in handler/orelse phase do not intercept
        link(sources, self.raise_exit, token)

    def _handler_node_for(self, h, src):
        best = None
        for (hid, dup), hn in self._handler_nodes.items():
            if hid == id(h) and src.dup[:len(dup)] == dup:
                if best is None or len(dup) > len(best.dup):
                    best = hn
        if best is None:
            raise AnalysisError('no handler node for handler at line %d' % h.lineno)
        return best

    # -- lookup ----------------------------------------------------------------
    def nodes_of(self, ast_node):
        return list(self.by_ast.get(id(ast_node), []))

    def nodes_containing(self, expr):
        """CFG nodes whose evaluated AST contains `expr` (all finally copies)."""
        cur = expr
        while cur is not None:
            if id(cur) in self.by_ast:
                res = [n for n in self.by_ast[id(cur)] if n.kind != 'branch']
                if res:
                    # a statement node evaluates its whole subtree, a test node
                    # only the test expression, etc.
                    return res
            cur = getattr(cur, '_parent', None)
            if cur is self.fnode:
                break
        return []

    def branch_nodes(self, test_node):
        return [t for t in test_node.nsucc() if t.kind == 'branch']

    def stats(self):
        return {'nodes': len(self.nodes), 'edges': sum(len(n.succ) for n in self.nodes)}


def _tok_str(tok):
    return ':'.join(str(x) for x in tok)


def _name_rebound(handler, name):
    for sub in ast.walk(handler):
        if isinstance(sub, ast.Name) and sub.id == name and isinstance(sub.ctx, ast.Store):
            return True
    return False
