"""
L6d: affine forms  sum(c_i * sym_i) + k  for line arithmetic, evaluated along
the acyclic paths of a function's CFG.
"""
import ast

from .loader import AnalysisError
from . import graph


class Aff:
    __slots__ = ('t',)

    def __init__(self, terms=None, const=0):
        t = dict(terms or {})
        if const:
            t['1'] = t.get('1', 0) + const
        self.t = {k: v for k, v in t.items() if v != 0}

    @staticmethod
    def sym(name):
        return Aff({name: 1})

    @staticmethod
    def const(k):
        return Aff({}, k)

    def __add__(self, o):
        t = dict(self.t)
        for k, v in o.t.items():
            t[k] = t.get(k, 0) + v
        return Aff(t)

    def __sub__(self, o):
        t = dict(self.t)
        for k, v in o.t.items():
            t[k] = t.get(k, 0) - v
        return Aff(t)

    def scale(self, c):
        return Aff({k: v * c for k, v in self.t.items()})

    def is_const(self):
        return set(self.t) <= {'1'}

    def __eq__(self, o):
        return isinstance(o, Aff) and self.t == o.t

    def __hash__(self):
        return hash(tuple(sorted(self.t.items())))

    def __repr__(self):
        if not self.t:
            return '0'
        parts = []
        for k in sorted(self.t, key=lambda x: (x == '1', x)):
            v = self.t[k]
            if k == '1':
                parts.append('%+d' % v)
            elif v == 1:
                parts.append('+%s' % k)
            elif v == -1:
                parts.append('-%s' % k)
            else:
                parts.append('%+d*%s' % (v, k))
        s = ' '.join(parts)
        return s[1:] if s.startswith('+') else s


def parse_spec(text):
    """'Lw - Ld + 1' -> Aff"""
    e = ast.parse(text, mode='eval').body

    def ev(x):
        if isinstance(x, ast.Constant) and isinstance(x.value, int):
            return Aff.const(x.value)
        if isinstance(x, ast.Name):
            return Aff.sym(x.id)
        if isinstance(x, ast.BinOp) and isinstance(x.op, ast.Add):
            return ev(x.left) + ev(x.right)
        if isinstance(x, ast.BinOp) and isinstance(x.op, ast.Sub):
            return ev(x.left) - ev(x.right)
        if isinstance(x, ast.BinOp) and isinstance(x.op, ast.Mult) and isinstance(x.left, ast.Constant):
            return ev(x.right).scale(x.left.value)
        if isinstance(x, ast.UnaryOp) and isinstance(x.op, ast.USub):
            return ev(x.operand).scale(-1)
        raise ValueError(text)
    return ev(e)


class Evaluator:
    """deno: {expression text: Aff} for inputs (attributes, calls, parameters, loop targets)"""

    def __init__(self, deno):
        self.deno = {k: (parse_spec(v) if isinstance(v, str) else v) for k, v in deno.items()}

    def aeval(self, e, env):
        if isinstance(e, ast.Constant):
            if isinstance(e.value, bool) or not isinstance(e.value, int):
                return None
            return Aff.const(e.value)
        if isinstance(e, ast.Name):
            if e.id in env:
                return env[e.id]
            return self.deno.get(e.id)
        if isinstance(e, ast.BinOp):
            l = self.aeval(e.left, env)
            r = self.aeval(e.right, env)
            if l is None or r is None:
                return None
            if isinstance(e.op, ast.Add):
                return l + r
            if isinstance(e.op, ast.Sub):
                return l - r
            if isinstance(e.op, ast.Mult):
                if l.is_const():
                    return r.scale(l.t.get('1', 0))
                if r.is_const():
                    return l.scale(r.t.get('1', 0))
            return None
        if isinstance(e, ast.UnaryOp) and isinstance(e.op, ast.USub):
            v = self.aeval(e.operand, env)
            return None if v is None else v.scale(-1)
        if isinstance(e, (ast.Attribute, ast.Call, ast.Subscript)):
            txt = ' '.join(ast.unparse(e).split())
            if txt in env:
                return env[txt]
            if txt in self.deno:
                return self.deno[txt]
            # a local alias of an object: `part = self.failed_part; part.line_offset`
            root = e
            while isinstance(root, (ast.Attribute, ast.Subscript)):
                root = root.value
            if isinstance(root, ast.Call):
                root = root.func
                while isinstance(root, ast.Attribute):
                    root = root.value
            if isinstance(root, ast.Name) and ('@alias:' + root.id) in env:
                txt2 = env['@alias:' + root.id] + txt[len(root.id):] if txt.startswith(root.id) else txt
                if txt2 in env:
                    return env[txt2]
                return self.deno.get(txt2)
            return None
        return None

    def step(self, node, env):
        """transfer of one CFG node on the environment (a new dict)"""
        if node.kind == 'stmt':
            s = node.ast
            if isinstance(s, ast.Assign):
                env = dict(env)
                val = self.aeval(s.value, env)
                for t in s.targets:
                    self._assign(t, s.value, val, env)
                return env
            if isinstance(s, ast.AugAssign):
                env = dict(env)
                key = s.target.id if isinstance(s.target, ast.Name) else ' '.join(ast.unparse(s.target).split())
                old = self.aeval(s.target, env) if not isinstance(s.target, ast.Name) else env.get(key, self.deno.get(key))
                inc = self.aeval(s.value, env)
                if old is None or inc is None or not isinstance(s.op, (ast.Add, ast.Sub)):
                    env[key] = None
                else:
                    env[key] = old + inc if isinstance(s.op, ast.Add) else old - inc
                return env
        elif node.kind == 'branch' and node.attrs['polarity'] == 'iter':
            env = dict(env)
            f = node.attrs['test'].ast
            for nm in ast.walk(f.target):
                if isinstance(nm, ast.Name):
                    env[nm.id] = self.deno.get(nm.id)
            return env
        return env

    def _assign(self, target, value_expr, val, env):
        if isinstance(target, ast.Name):
            # a declared input bound from a non-affine source (`tb_lineno = int(text)`) keeps its declared denotation
            env[target.id] = val if val is not None else self.deno.get(target.id)
            env.pop('@alias:' + target.id, None)
            if val is None and isinstance(value_expr, (ast.Attribute, ast.Name)) and not isinstance(value_expr, ast.Constant):
                txt = ' '.join(ast.unparse(value_expr).split())
                if isinstance(value_expr, ast.Name) and ('@alias:' + value_expr.id) in env:
                    txt = env['@alias:' + value_expr.id]
                env['@alias:' + target.id] = txt
        elif isinstance(target, (ast.Tuple, ast.List)):
            if isinstance(value_expr, (ast.Tuple, ast.List)) and len(value_expr.elts) == len(target.elts):
                vals = [self.aeval(v, env) for v in value_expr.elts]
                for t, v, ve in zip(target.elts, vals, value_expr.elts):
                    self._assign(t, ve, v, env)
            else:
                for t in target.elts:
                    for nm in ast.walk(t):
                        if isinstance(nm, ast.Name):
                            env[nm.id] = self.deno.get('unpack:' + nm.id)
        elif isinstance(target, (ast.Attribute, ast.Subscript)):
            env[' '.join(ast.unparse(target).split())] = val


def paths_to(g, targets, evaluator, max_paths=4000):
    """enumerate acyclic paths entry -> each target node; yields
    (target node, [branch nodes on the path], env at the target)"""
    be = graph.back_edges(g.entry, graph.normal_only)
    tids = set(id(t) for t in targets)
    # nodes from which a target is reachable (prune)
    useful = set()
    rev = {}
    for n in g.nodes:
        for t in n.nsucc():
            rev.setdefault(id(t), []).append(n)
    work = list(targets)
    while work:
        x = work.pop()
        if id(x) in useful:
            continue
        useful.add(id(x))
        work.extend(rev.get(id(x), []))
    out = []
    count = [0]

    def rec(n, env, branches):
        if id(n) not in useful:
            return
        if id(n) in tids:
            out.append((n, list(branches), env))
            count[0] += 1
            if count[0] > max_paths:
                raise AnalysisError('affine: too many paths in %s' % g.label)
            # continue: a target may also lie before another target
        env2 = evaluator.step(n, env)
        if n.kind == 'branch':
            branches = branches + [n]
        for t in n.nsucc():
            if (id(n), id(t)) in be:
                continue
            rec(t, env2, branches)
    rec(g.entry, {}, [])
    return out
