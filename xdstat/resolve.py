"""
L1: call resolution.

A call site resolves to
  ('repo',   [Func, ...])      one or several (may-call) repository functions
  ('class',  ClassInfo)        construction of a repository class
  ('builtin', name)            a builtin that is not shadowed
  ('ext',    dotted)           an external (stdlib / third party) callable
  ('method', name, [Func...])  attribute call on an untyped receiver; the list
                               holds the repository methods of that name (may be empty)
  ('unknown', text)
"""
import ast
import builtins

from .loader import Func, ClassInfo


class Resolver:
    def __init__(self, prog):
        self.prog = prog
        self._methods_by_name = {}
        for ci in prog.classes.values():
            for key, f in ci.methods.items():
                self._methods_by_name.setdefault(f.name, []).append(f)
        self._class_by_bare = {}
        for ci in prog.classes.values():
            self._class_by_bare.setdefault(ci.name, []).append(ci)
        self._local_cache = {}

    # -- scopes ------------------------------------------------------------
    def local_names(self, func):
        """names bound locally in func (params, assignment targets, for
        targets, with-as, handler names, nested defs, local imports)."""
        key = func.qualname
        if key in self._local_cache:
            return self._local_cache[key]
        node = func.node
        names = {}
        a = node.args
        for arg in a.posonlyargs + a.args + a.kwonlyargs + ([a.vararg] if a.vararg else []) + ([a.kwarg] if a.kwarg else []):
            names.setdefault(arg.arg, []).append(('param', arg))
        for sub in _walk_scope(node):
            if isinstance(sub, ast.Name) and isinstance(sub.ctx, (ast.Store, ast.Del)):
                names.setdefault(sub.id, []).append(('store', sub))
            elif isinstance(sub, (ast.FunctionDef, ast.AsyncFunctionDef)) and sub is not node:
                names.setdefault(sub.name, []).append(('def', sub))
            elif isinstance(sub, ast.ClassDef):
                names.setdefault(sub.name, []).append(('class', sub))
            elif isinstance(sub, (ast.Import, ast.ImportFrom)):
                for al in sub.names:
                    nm = al.asname or al.name.split('.')[0]
                    names.setdefault(nm, []).append(('import', sub, al))
            elif isinstance(sub, ast.ExceptHandler) and sub.name:
                names.setdefault(sub.name, []).append(('handler', sub))
        self._local_cache[key] = names
        return names

    def _local_import(self, func, entry):
        _, stmt, al = entry
        if isinstance(stmt, ast.Import):
            return ('mod', al.name if al.asname else al.name.split('.')[0])
        base = stmt.module or ''
        return self.prog.resolve_symbol(base, al.name) if base in self.prog.modules or base.startswith('xdoctest') else ('ext', base + '.' + al.name)

    def resolve_name(self, func, name, _seen=None):
        """what a bare name denotes inside func: list of resolutions."""
        f = func
        while f is not None:
            loc = self.local_names(f)
            if name in loc:
                out = []
                for entry in loc[name]:
                    if entry[0] == 'def':
                        g = f.nested.get(name)
                        if g is not None:
                            out.append(('func', g))
                    elif entry[0] == 'import':
                        out.append(self._local_import(f, entry))
                    elif entry[0] == 'store':
                        val = _assigned_value(entry[1])
                        if val is not None:
                            _seen = _seen or set()
                            if id(val) not in _seen:
                                _seen.add(id(val))
                                out.extend(self.resolve_expr(f, val, _seen))
                        else:
                            out.append(('local', name))
                    else:
                        out.append(('local', name))
                return out or [('local', name)]
            f = f.parent
        r = self.prog.resolve_expr_static(func.module, ast.Name(id=name, ctx=ast.Load()))
        return [r] if r is not None else []

    def resolve_expr(self, func, expr, _seen=None):
        """resolutions of an expression denoting a callable / module / class"""
        if isinstance(expr, ast.Name):
            return self.resolve_name(func, expr.id, _seen)
        if isinstance(expr, ast.Attribute):
            outs = []
            for base in self.resolve_expr(func, expr.value, _seen):
                if base is None:
                    continue
                if base[0] == 'mod':
                    outs.append(self.prog.resolve_symbol(base[1], expr.attr))
                elif base[0] == 'ext':
                    outs.append(('ext', base[1] + '.' + expr.attr))
                elif base[0] == 'class':
                    m = self.prog.find_method(base[1], expr.attr)
                    outs.append(('func', m) if m else ('classattr', base[1], expr.attr))
                elif base[0] == 'instance':
                    m = self.prog.find_method(base[1], expr.attr)
                    if m:
                        outs.append(('func', m))
                    else:
                        outs.append(('instattr', base[1], expr.attr))
            return outs
        if isinstance(expr, ast.Call):
            # value of a call: an instance when the callee is a class
            outs = []
            for r in self.resolve_expr(func, expr.func, _seen):
                if r and r[0] == 'class':
                    outs.append(('instance', r[1]))
            return outs
        return []

    # -- receiver typing -----------------------------------------------------
    def class_by_bare(self, name):
        c = self._class_by_bare.get(name, [])
        return c[0] if len(c) == 1 else None

    def receiver_class(self, func, expr):
        """repo ClassInfo of the value of `expr`, or None"""
        if isinstance(expr, ast.Name):
            if expr.id in ('self',) and func.cls is not None and _first_param(func) == 'self':
                return func.cls
            if func.cls is not None and expr.id == _first_param(func) and not _is_static(func):
                # methods written with another receiver name (e.g. `part`, `reporter`)
                if not _is_classmethod(func):
                    return func.cls
            # stub parameter annotation
            f = func
            while f is not None:
                ann = self.prog.stubs['params'].get(_stub_key(f), {}).get(expr.id)
                if ann:
                    ci = self.class_by_bare(ann)
                    if ci is not None and expr.id in [a.arg for a in f.node.args.args + f.node.args.kwonlyargs]:
                        return ci
                f = f.parent
            # constructor assignment
            cands = set()
            other = False
            f = func
            while f is not None:
                loc = self.local_names(f)
                if expr.id in loc:
                    for entry in loc[expr.id]:
                        if entry[0] == 'store':
                            val = _assigned_value(entry[1])
                            ci = self._value_class(f, val) if val is not None else None
                            if ci is not None:
                                cands.add(ci.qualname)
                            else:
                                other = True
                        else:
                            other = True
                    break
                f = f.parent
            if len(cands) == 1 and not other:
                return self.prog.classes[next(iter(cands))]
            return None
        if isinstance(expr, ast.Attribute):
            base = self.receiver_class(func, expr.value)
            if base is not None:
                classes, _ = self.prog.mro(base)
                for c in classes:
                    ann = self.prog.stubs['attrs'].get(c.qualname, {}).get(expr.attr)
                    if ann:
                        ci = self.class_by_bare(ann)
                        if ci is not None:
                            return ci
            return None
        if isinstance(expr, ast.Call):
            return self._value_class(func, expr)
        return None

    def _value_class(self, func, val):
        if isinstance(val, ast.Call):
            for r in self.resolve_expr(func, val.func):
                if r and r[0] == 'class':
                    return r[1]
                if r and r[0] == 'func' and r[1].cls is not None and _is_classmethod(r[1]) and _returns_cls_instance(r[1]):
                    return r[1].cls
        return None

    # -- calls -----------------------------------------------------------------
    def resolve_call(self, func, call):
        f = call.func
        if isinstance(f, ast.Name):
            rs = self.resolve_name(func, f.id)
            return self._pack(rs, f.id)
        if isinstance(f, ast.Attribute):
            # super().m / super(X, self).m
            if isinstance(f.value, ast.Call) and isinstance(f.value.func, ast.Name) and f.value.func.id == 'super':
                if func.cls is not None:
                    classes, ext = self.prog.mro(func.cls)
                    for c in classes[1:]:
                        if f.attr in c.methods:
                            return ('repo', [c.methods[f.attr]])
                    return ('ext', (ext[0] if ext else 'object') + '.' + f.attr)
            rc = self.receiver_class(func, f.value)
            if rc is not None:
                m = self.prog.find_method(rc, f.attr)
                if m is not None:
                    return ('repo', [m])
                _, ext = self.prog.mro(rc)
                return ('ext', (ext[0] if ext else 'object') + '.' + f.attr)
            rs = self.resolve_expr(func, f)
            rs = [r for r in rs if r is not None]
            if rs:
                packed = self._pack(rs, ast.unparse(f))
                if packed[0] != 'unknown':
                    return packed
            return ('method', f.attr, list(self._methods_by_name.get(f.attr, [])))
        return ('unknown', ast.unparse(f))

    def _pack(self, rs, text):
        funcs = [r[1] for r in rs if r and r[0] == 'func']
        classes = [r[1] for r in rs if r and r[0] == 'class']
        exts = [r[1] for r in rs if r and r[0] == 'ext']
        if funcs and not classes and not exts:
            return ('repo', funcs)
        if classes and not funcs and not exts:
            return ('class', classes[0])
        if exts and not funcs and not classes:
            d = exts[0]
            if d.startswith('builtins.'):
                return ('builtin', d[len('builtins.'):])
            return ('ext', d)
        if funcs:
            return ('repo', funcs)
        return ('unknown', text)

    def callees(self, func, call):
        """repository functions a call may enter (constructors -> __init__)."""
        r = self.resolve_call(func, call)
        if r[0] == 'repo':
            return list(r[1])
        if r[0] == 'class':
            m = self.prog.find_method(r[1], '__init__')
            return [m] if m else []
        if r[0] == 'method':
            return list(r[2])
        return []

    def is_resolved(self, r):
        return r[0] in ('repo', 'class', 'builtin', 'ext') or (r[0] == 'method')

    def dotted(self, func, call):
        """canonical dotted name of the callee for table lookups"""
        r = self.resolve_call(func, call)
        if r[0] == 'repo':
            return r[1][0].qualname
        if r[0] == 'class':
            return r[1].qualname
        if r[0] == 'builtin':
            return r[1]
        if r[0] == 'ext':
            return r[1]
        if r[0] == 'method':
            return '.' + r[1]
        return '?' + r[1]


def _walk_scope(fnode):
    """all nodes in the function's own scope (nested def/class bodies and
    lambdas excluded; the nested def node itself is yielded)."""
    work = list(ast.iter_child_nodes(fnode))
    while work:
        n = work.pop()
        yield n
        if isinstance(n, (ast.FunctionDef, ast.AsyncFunctionDef, ast.ClassDef, ast.Lambda)):
            continue
        work.extend(ast.iter_child_nodes(n))


def walk_scope(fnode):
    return _walk_scope(fnode)


def _assigned_value(name_node):
    """value expression when name_node is the single target of `x = value`
    (or one target of a chained assignment); None otherwise."""
    p = getattr(name_node, '_parent', None)
    if isinstance(p, ast.Assign) and any(t is name_node for t in p.targets):
        return p.value
    if isinstance(p, ast.AnnAssign) and p.target is name_node:
        return p.value
    return None


def _first_param(func):
    a = func.node.args
    ps = a.posonlyargs + a.args
    return ps[0].arg if ps else None


def _decorators(func):
    out = []
    for d in func.node.decorator_list:
        if isinstance(d, ast.Name):
            out.append(d.id)
        elif isinstance(d, ast.Attribute):
            out.append(d.attr)
    return out


def _is_static(func):
    return 'staticmethod' in _decorators(func)


def _is_classmethod(func):
    return 'classmethod' in _decorators(func)


def _returns_cls_instance(func):
    first = _first_param(func)
    for sub in ast.walk(func.node):
        if isinstance(sub, ast.Return) and isinstance(sub.value, ast.Name) and sub.value.id == 'self':
            return True
        if isinstance(sub, ast.Return) and isinstance(sub.value, ast.Call) and isinstance(sub.value.func, ast.Name) and sub.value.func.id == first:
            return True
    return False


def _stub_key(func):
    return func.qualname
