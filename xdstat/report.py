"""
Obligation bookkeeping, known-findings matching, evidence and replay files.
"""
import json
import os
import re
import time

VERIF = os.path.dirname(os.path.dirname(os.path.abspath(__file__)))
KNOWN_FINDINGS = os.path.join(VERIF, 'known_findings.json')

TRUSTED_BASE = [
    'CPython 3.12 ast / re._parser as the parser of the analysed sources and regexes',
    'language guarantees for with / finally / exception matching; builtin exception hierarchy from `builtins`',
    'context managers do not suppress exceptions (checked for the repository classes used on anchored paths)',
    'table of total / user-code-executing stdlib callees in xdstat/policy.py',
    '_tokenize.py (vendored CPython tokenizer) and the stdlib are black boxes',
    'receiver types come from the package .pyi stubs, constructor assignments and unique method names',
]


def norm_construct(text):
    text = re.sub(r'\s+', ' ', text or '').strip()
    return text[:200]


class Obligation:
    __slots__ = ('rule', 'loc', 'construct', 'holds', 'detail', 'nontrivial', 'witness', 'anchor')

    def __init__(self, rule, loc, construct, holds, detail, nontrivial, witness, anchor):
        self.rule = rule
        self.loc = loc
        self.construct = construct
        self.holds = holds
        self.detail = detail
        self.nontrivial = nontrivial
        self.witness = witness
        self.anchor = anchor

    def as_dict(self):
        d = {'rule': self.rule, 'at': self.loc, 'construct': self.construct,
             'verdict': 'holds' if self.holds else 'VIOLATED', 'detail': self.detail}
        if self.anchor:
            d['anchor'] = self.anchor
        if self.witness:
            d['witness'] = self.witness
        return d


class Report:
    def __init__(self, prop, tier='quick', seed=0, quiet=False, evidence_dir=None):
        self.prop = prop
        self.tier = tier
        self.seed = seed
        self.quiet = quiet
        self.obligations = []
        self.rule_counts = {}
        self.floors = {}
        self.notes = {}
        self.t0 = time.time()
        self.evidence_dir = evidence_dir or os.path.join(VERIF, 'evidence')
        self.explanation = ''
        self.errors = []
        self.decides = []
        self.not_decided = []

    # -- recording ----------------------------------------------------------
    def ob(self, rule, loc, construct, holds, detail='', nontrivial=True, witness=None, anchor=None):
        o = Obligation(rule, loc, norm_construct(construct), bool(holds), detail, nontrivial, witness, anchor)
        self.obligations.append(o)
        self.rule_counts[rule] = self.rule_counts.get(rule, 0) + 1
        return bool(holds)

    def floor(self, rule, what, count, minimum):
        """vacuous-pass guard: fewer instances than confirmed by hand means the
        rule no longer sees the code it was written for."""
        self.floors['%s:%s' % (rule, what)] = {'found': count, 'floor': minimum}
        if count < minimum:
            from .loader import AnalysisError
            raise AnalysisError('%s: instance floor not met for %s: found %d, confirmed by hand %d' % (rule, what, count, minimum))

    def rule(self, fn, *args, **kw):
        """run one rule function; an idiom it cannot classify is an analysis
        error of that rule only and never masks violations found by others"""
        from .loader import AnalysisError
        prog = getattr(args[0], 'prog', None) if args else None
        if prog is not None:
            prog.accessed = []
        start = len(self.obligations)
        try:
            fn(*args, **kw)
        except AnalysisError as ex:
            self.errors.append('%s: %s' % (fn.__name__, ex))
        except Exception as ex:
            import traceback
            tb = traceback.extract_tb(ex.__traceback__)[-1]
            self.errors.append('%s: internal error %s: %s (%s:%d)' % (fn.__name__, type(ex).__name__, ex, tb.filename.split('/')[-1], tb.lineno))
        finally:
            # a finding about a function that leans on machinery the analysis does not see through (new helpers, classes, tables of
            # callables that the loader could not fold back) is not a verdict: the rule saw only part of what the function does
            def listed(o):
                # a recorded known finding stays what it is
                if not hasattr(self, '_open_known'):
                    self._open_known = [k for k in load_known() if k.get('status') == 'open']
                return any(k.get('property') == self.prop and k['rule'] == o.rule and k.get('anchor') == o.anchor and norm_construct(k['construct']) == o.construct for k in self._open_known)
            if prog is not None and any(not o.holds and not listed(o) for o in self.obligations[start:]):
                unseen = {}
                anchored = [prog.funcs[o.anchor] for o in self.obligations[start:] if not o.holds and o.anchor in getattr(prog, 'funcs', {})]
                for f in list(prog.accessed) + anchored:
                    for nm in prog.unseen_machinery(f):
                        unseen.setdefault(f.qualname, []).append(nm)
                if unseen:
                    bad = [o for o in self.obligations[start:] if not o.holds and not listed(o)]
                    self.obligations[start:] = [o for o in self.obligations[start:] if o.holds or listed(o)]
                    what = '; '.join('%s uses %s' % (q, ', '.join(sorted(set(v)))) for q, v in sorted(unseen.items()))
                    self.errors.append('%s: not analysed: %s -- new since the tree was read and not folded back by the loader; %d finding(s) of this rule (%s) are therefore not verdicts'
                                       % (fn.__name__, what, len(bad), ', '.join(sorted({o.rule for o in bad}))))

    def note(self, key, value):
        self.notes[key] = value

    # -- finishing ------------------------------------------------------------
    def finish(self, analysed, known=None):
        if known is None:
            known = load_known()
        open_known = [k for k in known if k.get('status') == 'open' and k.get('property') == self.prop]
        violations = [o for o in self.obligations if not o.holds]
        listed, unlisted = [], []
        for v in violations:
            hit = None
            for k in open_known:
                if k['rule'] == v.rule and k.get('anchor') == v.anchor and norm_construct(k['construct']) == v.construct:
                    hit = k
                    break
            (listed if hit else unlisted).append((v, hit))
        lines = []
        seen_known = set()
        for v, k in listed:
            key = (k['rule'], k['anchor'], k['construct'])
            if key in seen_known:
                continue
            seen_known.add(key)
            lines.append('KNOWN-FINDING: property=%s %s %s `%s` -- %s' % (self.prop, v.rule, v.anchor, v.construct, k.get('what', '')))
        replay_dir = os.path.join(self.evidence_dir, 'replay')
        seen_v = set()
        for v, _ in unlisted:
            key = (v.rule, v.anchor, v.construct)
            if key in seen_v:
                continue
            seen_v.add(key)
            os.makedirs(replay_dir, exist_ok=True)
            slug = re.sub(r'[^A-Za-z0-9]+', '_', '%s-%s-%s' % (v.rule, v.anchor or '', v.construct))[:90]
            rp = os.path.join(replay_dir, '%s-%s.json' % (self.prop, slug))
            with open(rp, 'w') as f:
                json.dump({'property': self.prop, 'finding_key': {'rule': v.rule, 'anchor': v.anchor, 'construct': v.construct},
                           **v.as_dict()}, f, indent=1)
            lines.append('VIOLATION property=%s replay=%s' % (self.prop, rp))
            lines.append('  %s at %s: `%s` -- %s' % (v.rule, v.loc, v.construct, v.detail))
        n_ob = len(self.obligations)
        n_ok = sum(1 for o in self.obligations if o.holds)
        distinct_nt = len({(o.rule, o.anchor, o.construct, o.loc) for o in self.obligations if o.nontrivial})
        samples = []
        per_rule = {}
        for o in self.obligations:
            per_rule.setdefault(o.rule, []).append(o)
        for rule in sorted(per_rule):
            obs = per_rule[rule]
            bad = [o for o in obs if not o.holds]
            for o in (bad + obs)[:2 if self.tier == 'quick' else 6]:
                d = o.as_dict()
                if d not in samples:
                    samples.append(d)
        ev = {
            'property_id': self.prop,
            'tier': self.tier,
            'seed': self.seed,
            'level': 'other',
            'coverage': {
                'explanation': self.explanation,
                'decides': self.decides,
                'not_decided': self.not_decided,
                'obligations': n_ob,
                'discharged': n_ok,
                'evaluations': n_ob,
                'distinct_nontrivial': distinct_nt,
                'rule': ('one evaluation = one rule instance (obligation) found by role inside an anchored function of the '
                         'current /repo/src tree; non-trivial = its verdict needed a path, dominance, data-flow, escape, '
                         'table or regex computation (plain presence lookups are not counted); distinct by (rule, anchor, construct, location)'),
                'samples': samples,
                'analysed': analysed,
                'rules': {r: {'instances': c} for r, c in sorted(self.rule_counts.items())},
                'instance_floors': self.floors,
                'known_findings': [{'rule': k['rule'], 'anchor': k['anchor'], 'construct': k['construct'], 'what': k.get('what', '')}
                                   for v, k in listed],
                'exhaustive': True,
                'checker_cmd': './check %s' % self.prop,
                'trusted_base': TRUSTED_BASE,
            },
            'assumptions': TRUSTED_BASE,
            'wall_s': round(time.time() - self.t0, 3),
            'violations': len(seen_v),
        }
        ev['coverage'].update(self.notes)
        if self.errors and not seen_v and (n_ob < 1 or distinct_nt < 2):
            # every rule stopped on an idiom it does not know: nothing was decided, which is an analysis error and not a verdict
            for e in self.errors:
                lines.append('ANALYSIS-ERROR property=%s %s' % (self.prop, e))
            return 2, lines, ev
        validate_evidence(ev)
        os.makedirs(self.evidence_dir, exist_ok=True)
        with open(os.path.join(self.evidence_dir, '%s.json' % self.prop), 'w') as f:
            json.dump(ev, f, indent=1, default=str)
        for e in self.errors:
            lines.append('ANALYSIS-ERROR property=%s %s' % (self.prop, e))
        ev['coverage']['analysis_errors'] = list(self.errors)
        with open(os.path.join(self.evidence_dir, '%s.json' % self.prop), 'w') as f:
            json.dump(ev, f, indent=1, default=str)
        return (1 if seen_v else (2 if self.errors else 0)), lines, ev


def load_known():
    if not os.path.exists(KNOWN_FINDINGS):
        return []
    with open(KNOWN_FINDINGS) as f:
        return json.load(f).get('findings', [])


def validate_evidence(ev):
    """the parts of EVIDENCE.schema.json that apply to level 'other'"""
    for k in ('property_id', 'tier', 'seed', 'level', 'coverage', 'wall_s'):
        assert k in ev, 'evidence lacks %s' % k
    assert ev['tier'] in ('quick', 'thorough')
    assert isinstance(ev['seed'], int)
    assert ev['level'] == 'other'
    cov = ev['coverage']
    assert isinstance(cov.get('explanation'), str) and cov['explanation'].strip(), 'explanation missing'
    assert isinstance(cov['samples'], list) and cov['samples'], 'samples missing'
    assert cov['evaluations'] >= 1 and cov['distinct_nontrivial'] >= 2, 'too few obligations'
    assert isinstance(ev['wall_s'], (int, float))
