"""
May-raise policies (which expressions get exceptional edges).

`DefaultPolicy` is the CFG's general model: any call may raise `Exception`
unless it resolves to an entry of the total-callee tables below; calls that
run user code (exec / eval / asyncio.run / repr / str of arbitrary objects)
may additionally raise a non-Exception BaseException.

The tables are part of the trusted base and are printed in evidence.
"""
import ast

from .cfg import ExcModel, _walk_no_nested

E = ('sub', 'Exception')
NONEXC = ('nonexc',)

# builtins that never raise for the arguments the repository passes them, or
# whose only failure mode is configuration (closed stream)
TOTAL_BUILTINS = {
    'print', 'len', 'isinstance', 'issubclass', 'hasattr', 'id', 'type', 'bool', 'callable',
    'sorted', 'list', 'dict', 'set', 'tuple', 'frozenset', 'enumerate', 'zip', 'range', 'sum',
    'reversed', 'iter', 'hex', 'super', 'object', 'staticmethod', 'classmethod', 'property',
    'filter', 'map', 'any', 'all', 'abs', 'float', 'divmod', 'vars', 'globals', 'locals',
}
# builtins that execute code of arbitrary (user) objects
USERCODE_BUILTINS = {'exec', 'eval', 'repr', 'str', 'format', 'ascii', 'hash'}
USERCODE_EXT = {'asyncio.run'}

TOTAL_EXT = {
    'sys.exc_info', 'time.time', 'warnings.warn', 'warnings.catch_warnings',
    'traceback.format_tb', 'traceback.format_exc', 'traceback.format_exception',
    'traceback.format_exception_only', 'collections.OrderedDict', 'collections.deque',
    'collections.defaultdict', 'collections.namedtuple', 'os.path.join', 'os.path.exists',
    'os.path.isfile', 'os.path.isdir', 'os.path.dirname', 'os.path.basename', 'os.path.splitext',
    'os.path.abspath', 'os.path.realpath', 'os.path.expanduser', 'os.path.split', 'os.path.normpath',
    'os.environ.get', 're.escape', 'math.ceil', 'functools.partial', 'textwrap.dedent',
    'warnings.formatwarning', 'copy.deepcopy', 'itertools.chain.from_iterable', 'io.StringIO',
}
# methods of str / list / dict / set that are total
TOTAL_METHODS = {
    'startswith', 'endswith', 'strip', 'lstrip', 'rstrip', 'lower', 'upper', 'casefold', 'join',
    'split', 'rsplit', 'splitlines', 'replace', 'expandtabs', 'count', 'find', 'rfind', 'format',
    'isspace', 'isdigit', 'isalpha', 'isidentifier', 'ljust', 'rjust', 'title', 'partition', 'rpartition',
    'append', 'extend', 'insert', 'sort', 'reverse', 'copy', 'clear',
    'get', 'keys', 'values', 'items', 'update', 'setdefault',
    'add', 'discard', 'union', 'difference', 'intersection', 'issubset',
    'group', 'groupdict', 'start', 'end', 'span', 'isatty', 'exc_info',
}
EXT_TYPE_NAMES = {'dict', 'list', 'set', 'str', 'tuple', 'OrderedDict', 'deque', 'int', 'bool', 'frozenset'}


class DefaultPolicy(ExcModel):
    def __init__(self, prog, func, resolver, summaries=None):
        super().__init__(prog, func.module)
        self.func = func
        self.resolver = resolver
        self.summaries = summaries
        self.subscripts_raise = True
        # `assert` statements are internal invariants of the repository, not
        # failure kinds: they get no exceptional edge (trusted base)
        self.asserts_raise = False

    def call_raises(self, call, node):
        r = self.resolver.resolve_call(self.func, call)
        k = r[0]
        if k == 'builtin':
            name = r[1]
            if name in USERCODE_BUILTINS:
                return {E, NONEXC}
            if name in TOTAL_BUILTINS:
                return set()
            if name == 'getattr' and len(call.args) == 3:
                return set()
            if name == 'next':
                return {E, ('exact', 'StopIteration')}
            if self.exc_class(name):
                return set()     # constructing an exception object
            return {E}
        if k == 'ext':
            d = r[1]
            if d in USERCODE_EXT:
                return {E, NONEXC}
            if d in TOTAL_EXT:
                return set()
            last = d.split('.')[-1]
            if d.split('.')[0] in EXT_TYPE_NAMES and last in TOTAL_METHODS:
                return set()
            return {E}
        if k in ('repo', 'class'):
            if self.summaries is not None:
                toks = set()
                for f in self.resolver.callees(self.func, call):
                    toks |= self.summaries.escapes(f)
                return toks
            if k == 'class' and self.bases(r[1].qualname) and 'BaseException' in self.bases(r[1].qualname):
                return set()
            return {E}
        if k == 'method':
            if not r[2] and r[1] in TOTAL_METHODS:
                return set()
            if r[2] and r[1] in TOTAL_METHODS:
                # name shared with a repository method: decide by receiver type
                t = self.ext_receiver_type(call.func.value)
                if t is not None:
                    return set()
            if self.summaries is not None and r[2]:
                toks = set()
                for f in r[2]:
                    toks |= self.summaries.escapes(f)
                return toks | {E}
            return {E}
        return {E}

    def exc_class(self, name):
        b = self.bases(name)
        return bool(b) and 'BaseException' in b

    def ext_receiver_type(self, expr):
        """name of a builtin container/str type when the receiver expression
        is known to hold one (stub annotation, display, constructor)."""
        if isinstance(expr, (ast.Dict, ast.DictComp)):
            return 'dict'
        if isinstance(expr, (ast.List, ast.ListComp)):
            return 'list'
        if isinstance(expr, (ast.Set, ast.SetComp)):
            return 'set'
        if isinstance(expr, (ast.JoinedStr,)) or (isinstance(expr, ast.Constant) and isinstance(expr.value, str)):
            return 'str'
        if isinstance(expr, ast.Call) and isinstance(expr.func, ast.Name) and expr.func.id in EXT_TYPE_NAMES:
            return expr.func.id
        if isinstance(expr, ast.Attribute):
            base = self.resolver.receiver_class(self.func, expr.value)
            if base is not None:
                classes, _ = self.prog.mro(base)
                for c in classes:
                    ann = self.prog.stubs['attrs'].get(c.qualname, {}).get(expr.attr)
                    if ann in EXT_TYPE_NAMES:
                        return ann
                    if ann:
                        return None
            return None
        if isinstance(expr, ast.Name):
            f = self.func
            while f is not None:
                ann = self.prog.stubs['params'].get(f.qualname, {}).get(expr.id)
                if ann in EXT_TYPE_NAMES and expr.id in [a.arg for a in f.node.args.args + f.node.args.kwonlyargs]:
                    return ann
                f = f.parent
            # single-assignment local alias
            loc = self.resolver.local_names(self.func).get(expr.id, [])
            types = set()
            for entry in loc:
                if entry[0] != 'store':
                    return None
                p = getattr(entry[1], '_parent', None)
                if isinstance(p, ast.Assign) and any(t is entry[1] for t in p.targets):
                    t = self.ext_receiver_type(p.value)
                    types.add(t)
                else:
                    return None
            if len(types) == 1:
                return next(iter(types))
        return None

    def expr_raises(self, expr, node):
        toks = set()
        if expr is None:
            return toks
        for sub in _walk_no_nested(expr):
            if isinstance(sub, ast.Call):
                toks |= self.call_raises(sub, node)
            elif isinstance(sub, ast.Subscript) and isinstance(sub.ctx, ast.Load) and self.subscripts_raise:
                if not isinstance(sub.slice, ast.Slice):
                    toks.add(E)
            elif isinstance(sub, (ast.Await, ast.YieldFrom)):
                toks.add(E)
        return toks

    def for_raises(self, forstmt, node):
        it = forstmt.iter
        # iterating a generator runs its code
        if isinstance(it, ast.Call):
            r = self.resolver.resolve_call(self.func, it)
            if r[0] == 'builtin' and r[1] in ('enumerate', 'zip', 'reversed', 'iter'):
                toks = set()
                for a in it.args:
                    if isinstance(a, ast.Call) or isinstance(a, ast.Name):
                        toks |= self._iter_source_raises(a)
                return toks
            if r[0] == 'builtin' and r[1] in TOTAL_BUILTINS:
                return set()
            if r[0] in ('method',) and not r[2] and r[1] in TOTAL_METHODS:
                return set()
            return self._iter_source_raises(it)
        return set()

    def _iter_source_raises(self, expr):
        if isinstance(expr, ast.Call):
            r = self.resolver.resolve_call(self.func, expr)
            if r[0] == 'repo':
                if any(_is_generator(f.node) for f in r[1]):
                    if self.summaries is not None:
                        toks = set()
                        for f in r[1]:
                            toks |= self.summaries.escapes(f)
                        return toks
                    return {E}
                return set()
            if r[0] == 'builtin' and r[1] in TOTAL_BUILTINS:
                return set()
            if r[0] == 'method' and not r[2] and r[1] in TOTAL_METHODS:
                return set()
            return {E}
        return set()

    def with_exit_raises(self, item, node):
        ce = item.context_expr
        ci = self.resolver.receiver_class(self.func, ce)
        if ci is None and isinstance(ce, ast.Call):
            ci = self.resolver._value_class(self.func, ce)
        if ci is not None:
            m = self.prog.find_method(ci, '__exit__')
            if m is not None:
                if self.summaries is not None:
                    return self.summaries.escapes(m)
                return {E}
        return set()


def _is_generator(fnode):
    from .resolve import walk_scope
    return any(isinstance(n, (ast.Yield, ast.YieldFrom)) for n in walk_scope(fnode))


class Summaries:
    """L5: exception classes that may leave a repository function, computed on
    demand with the given policy class (memoised; recursion -> conservative)."""

    def __init__(self, prog, resolver, policy_cls=DefaultPolicy, trusted=()):
        self.prog = prog
        self.resolver = resolver
        self.policy_cls = policy_cls
        self.memo = {}
        self.active = set()
        self.trusted = set(trusted)     # module names treated as black boxes raising Exception

    def escapes(self, func):
        from .cfg import CFG
        q = func.qualname
        if q in self.memo:
            return self.memo[q]
        if q in self.active:
            return {E}
        if func.module.name in self.trusted:
            self.memo[q] = {E}
            return self.memo[q]
        self.active.add(q)
        try:
            pol = self.policy_cls(self.prog, func, self.resolver, self)
            g = CFG(func.node, pol, label=q)
            toks = {tok for (_, k, tok) in g.raise_exit.pred}
        finally:
            self.active.discard(q)
        self.memo[q] = toks
        return toks


class SitePolicy(DefaultPolicy):
    """Only an enumerated set of call sites (by AST identity) and explicit
    `raise` statements are exception sources.  Used by ESCAPE rules that
    quantify over named failure kinds; incidental calls, subscripts and
    `assert` statements (internal invariants) raise nothing."""

    def __init__(self, prog, func, resolver, site_tokens, with_exit_tokens=None):
        super().__init__(prog, func, resolver, None)
        self.site_tokens = site_tokens            # id(call ast) -> set(tokens)
        self.with_exit_tokens = with_exit_tokens or {}   # id(withitem) -> set(tokens)
        self.subscripts_raise = False
        self.asserts_raise = False

    def call_raises(self, call, node):
        return set(self.site_tokens.get(id(call), ()))

    def expr_raises(self, expr, node):
        toks = set()
        if expr is None:
            return toks
        for sub in _walk_no_nested(expr):
            if isinstance(sub, ast.Call):
                toks |= self.call_raises(sub, node)
        return toks

    def for_raises(self, forstmt, node):
        return set()

    def with_exit_raises(self, item, node):
        return set(self.with_exit_tokens.get(id(item), ()))


class UserCodePolicy(DefaultPolicy):
    """Exception sources = explicit raises + calls that run code of arbitrary
    user objects (repr/str/format/... of a non-literal) + repository callees
    (summarised with the same policy).  Library string functions are total."""

    def __init__(self, prog, func, resolver, summaries=None):
        super().__init__(prog, func, resolver, summaries)
        self.subscripts_raise = False
        self.asserts_raise = False

    def _params(self):
        a = self.func.node.args
        return {x.arg for x in a.posonlyargs + a.args + a.kwonlyargs}

    def _formats_parameter(self, args):
        """string formatting of a bare parameter of the enclosing function runs the __repr__ / __str__ / __format__ of a caller-supplied object"""
        ps = self._params()
        return any(isinstance(a, ast.Name) and a.id in ps for a in args)

    def call_raises(self, call, node):
        r = self.resolver.resolve_call(self.func, call)
        if r[0] == 'builtin' and r[1] in USERCODE_BUILTINS:
            if any(not isinstance(a, ast.Constant) for a in call.args):
                return {E, NONEXC}
            return set()
        if isinstance(call.func, ast.Attribute) and call.func.attr == 'format' and isinstance(call.func.value, ast.Constant) and isinstance(call.func.value.value, str):
            if self._formats_parameter(list(call.args) + [k.value for k in call.keywords]):
                return {E, NONEXC}
            return set()
        if r[0] == 'ext' and r[1] in USERCODE_EXT:
            return {E, NONEXC}
        if r[0] in ('repo', 'class') and self.summaries is not None:
            toks = set()
            for f in self.resolver.callees(self.func, call):
                toks |= self.summaries.escapes(f)
            return toks
        return set()

    def expr_raises(self, expr, node):
        toks = set()
        if expr is None:
            return toks
        for sub in _walk_no_nested(expr):
            if isinstance(sub, ast.Call):
                toks |= self.call_raises(sub, node)
            elif isinstance(sub, ast.JoinedStr):
                if self._formats_parameter([v.value for v in sub.values if isinstance(v, ast.FormattedValue)]):
                    toks |= {E, NONEXC}
            elif isinstance(sub, ast.BinOp) and isinstance(sub.op, ast.Mod) and isinstance(sub.left, ast.Constant) and isinstance(sub.left.value, str):
                args = sub.right.elts if isinstance(sub.right, ast.Tuple) else [sub.right]
                if self._formats_parameter(args):
                    toks |= {E, NONEXC}
        return toks

    def for_raises(self, forstmt, node):
        return set()

    def with_exit_raises(self, item, node):
        return set()
