"""
L0: load the package under analysis from source text only.

Nothing here imports or executes code of the analysed tree.  The unit of
analysis is a mapping {relative path: source text}; `load_tree` builds it from
a directory, the self-test builds it in memory from edited sources.
"""
import ast
import os
import builtins


PKG = 'xdoctest'


class AnalysisError(Exception):
    """The analysis could not be carried out (exit 2): vanished anchor,
    unrecognised idiom, instance floor not met."""


class _Desugar(ast.NodeTransformer):
    """semantics-preserving normalisation applied before any analysis, so that rules phrased over statements and branch edges see through
    expression-level idioms:  `t = a if c else b`  ->  `if c: t = a  else: t = b`  (same for `return`); only inside function bodies."""

    def __init__(self):
        self.depth = 0

    def _func(self, node):
        self.depth += 1
        self.generic_visit(node)
        self.depth -= 1
        return node
    visit_FunctionDef = _func
    visit_AsyncFunctionDef = _func

    def visit_Lambda(self, node):
        return node

    def _split(self, node, value, make):
        if self.depth and value is not None and not isinstance(value, ast.IfExp):
            # exactly one conditional expression buried in the value, evaluated unconditionally: f((a if c else b)[k])  ->  if c: f(a[k]) else: f(b[k])
            found = []

            def scan(e, parent, field, index):
                if isinstance(e, (ast.Lambda, ast.ListComp, ast.SetComp, ast.DictComp, ast.GeneratorExp)):
                    return
                if isinstance(e, ast.IfExp):
                    found.append((parent, field, index, e))
                    return
                if isinstance(e, ast.BoolOp):
                    scan(e.values[0], e, 'values', 0)
                    return
                for fld, val in ast.iter_fields(e):
                    if isinstance(val, ast.AST):
                        scan(val, e, fld, None)
                    elif isinstance(val, list):
                        for i, y in enumerate(val):
                            if isinstance(y, ast.AST):
                                scan(y, e, fld, i)
            scan(value, None, None, None)
            if len(found) == 1 and found[0][0] is not None:
                import copy
                parent, field, index, ife = found[0]

                def with_(choice):
                    if index is None:
                        setattr(parent, field, choice)
                    else:
                        getattr(parent, field)[index] = choice
                    v = copy.deepcopy(value)
                    return v
                a = with_(ife.body)
                b = with_(ife.orelse)
                with_(ife)
                value = ast.copy_location(ast.IfExp(test=ife.test, body=a, orelse=b), value)
        if self.depth == 0 or not isinstance(value, ast.IfExp):
            return node
        body = make(value.body)
        orelse = make(value.orelse)
        new = ast.If(test=value.test, body=[body], orelse=[orelse])
        for x in (new, body, orelse):
            ast.copy_location(x, node)
        new._desugared = True
        # nested conditional expressions
        new.body = [self.visit(body)] if not isinstance(self.visit(body), list) else self.visit(body)
        new.orelse = [self.visit(orelse)] if not isinstance(self.visit(orelse), list) else self.visit(orelse)
        return new

    def visit_Assign(self, node):
        # a, b, c = [f(k) for k in ('x', 'y', 'z')]   ->   a = f('x'); b = f('y'); c = f('z')
        if self.depth and len(node.targets) == 1 and isinstance(node.targets[0], (ast.Tuple, ast.List)) and isinstance(node.value, (ast.ListComp, ast.GeneratorExp)) and \
                len(node.value.generators) == 1:
            gen = node.value.generators[0]
            tg = node.targets[0]
            if not gen.ifs and not gen.is_async and isinstance(gen.target, ast.Name) and isinstance(gen.iter, (ast.Tuple, ast.List)) and len(gen.iter.elts) == len(tg.elts) and \
                    all(isinstance(e, ast.Constant) for e in gen.iter.elts) and all(isinstance(t, ast.Name) for t in tg.elts):
                import copy
                out = []
                for t, k in zip(tg.elts, gen.iter.elts):
                    elt = _SubstName(gen.target.id, k).visit(copy.deepcopy(node.value.elt))
                    out.append(ast.copy_location(ast.Assign(targets=[t], value=elt, type_comment=None), node))
                return out
        if len(node.targets) == 1 and isinstance(node.targets[0], (ast.Name, ast.Attribute, ast.Subscript)):
            import copy
            return self._split(node, node.value, lambda v: ast.Assign(targets=[copy.deepcopy(node.targets[0])], value=v, type_comment=None))
        return node

    def visit_Return(self, node):
        return self._split(node, node.value, lambda v: ast.Return(value=v))


class _SubstName(ast.NodeTransformer):
    def __init__(self, name, value):
        self.name, self.value = name, value

    def visit_Name(self, node):
        if node.id == self.name and isinstance(node.ctx, ast.Load):
            import copy
            return ast.copy_location(copy.deepcopy(self.value), node)
        return node


# methods whose body is analysed with the helper methods of their own class expanded in place (extract-method refactorings of these
# functions must not hide the obligation sites from the rules that are phrased over their flow graph)
INLINE_HOSTS = {('DocTest', 'run'), ('DoctestParser', '_label_docsrc_lines')}


class _Rename(ast.NodeTransformer):
    def __init__(self, mapping):
        self.mapping = mapping

    def visit_Name(self, node):
        if node.id in self.mapping:
            return ast.copy_location(ast.Name(id=self.mapping[node.id], ctx=node.ctx), node)
        return node

    def visit_FunctionDef(self, node):
        return node        # nested scopes are left alone (a helper with nested functions is not inlined at all)
    visit_AsyncFunctionDef = visit_FunctionDef
    visit_Lambda = visit_FunctionDef


def _always_leaves(stmts):
    """the statement list ends every path with return / raise / continue / break"""
    if not stmts:
        return False
    last = stmts[-1]
    if isinstance(last, (ast.Return, ast.Raise)):
        return True
    if isinstance(last, ast.If):
        return _always_leaves(last.body) and _always_leaves(last.orelse)
    return False


def _has_return(stmts):
    return any(isinstance(x, ast.Return) for st in stmts for x in ast.walk(st))


def _structure_returns(stmts, make_result):
    """rewrite a statement list so that `return v` becomes `<result> = v` and control falls to the end of the list instead of leaving it:
    statements that follow a conditional return are moved into the branches that did not return.  Raises ValueError for shapes that are not
    handled (a return inside a loop, try or with)."""
    import copy
    out = []
    for i, st in enumerate(stmts):
        rest = stmts[i + 1:]
        if isinstance(st, ast.Return):
            out += make_result(st)
            return out      # what follows is dead
        if isinstance(st, ast.If) and (_has_return(st.body) or _has_return(st.orelse)):
            body_leaves, else_leaves = _always_leaves(st.body), _always_leaves(st.orelse)
            nb = st.body if body_leaves or not rest else st.body + copy.deepcopy(rest)
            ne = st.orelse if else_leaves or not rest else st.orelse + copy.deepcopy(rest)
            new = ast.copy_location(ast.If(test=st.test, body=_structure_returns(nb, make_result) or [ast.copy_location(ast.Pass(), st)],
                                           orelse=_structure_returns(ne, make_result)), st)
            if getattr(st, '_desugared', False):
                new._desugared = True
            out.append(new)
            return out
        if isinstance(st, (ast.For, ast.While, ast.Try, ast.With, ast.AsyncFor, ast.AsyncWith)) and _has_return([st]):
            raise ValueError('return inside %s' % type(st).__name__)
        out.append(st)
    return out


class _InlineMethods:
    """expand `x = self.helper(...)`, `self.helper(...)` and `return self.helper(...)` inside the INLINE_HOSTS by the body of the helper method
    of the same class (parameters bound by assignment, locals renamed, returns turned into assignments); two levels deep"""

    def __init__(self, tree):
        self.tree = tree
        self.counter = 0

    def run(self):
        self.module_funcs = {n.name: n for n in self.tree.body if isinstance(n, ast.FunctionDef)}
        for cls in [n for n in self.tree.body if isinstance(n, ast.ClassDef)]:
            methods = {m.name: m for m in cls.body if isinstance(m, (ast.FunctionDef,))}
            for (cname, mname) in INLINE_HOSTS:
                if cls.name == cname and mname in methods:
                    host = methods[mname]
                    self.host_key = (cname, mname)
                    for _ in range(2):
                        host.body = self._block(host.body, host, methods)

    ROLE_BUILTINS = {'exec', 'eval', 'compile'}
    ROLE_FIELDS = {'exc_info', 'failed_tb_lineno', 'failed_part', 'logged_stdout', 'logged_evals', '_runstate', '_skipped_parts', '_unmatched_stdout', '_partfilename'}
    ROLE_CALLS = {'check', 'check_exception', 'check_got_vs_want'}

    def _carries_obligation_sites(self, m):
        """the helper executes doctest code, compares output or writes one of the per-run fields the rules of DocTest.run reason about"""
        for x in ast.walk(m):
            if isinstance(x, ast.Call) and isinstance(x.func, ast.Name) and x.func.id in self.ROLE_BUILTINS:
                return True
            if isinstance(x, ast.Call) and isinstance(x.func, ast.Attribute) and x.func.attr in self.ROLE_CALLS:
                return True
            if isinstance(x, ast.Attribute) and isinstance(x.ctx, ast.Store) and x.attr in self.ROLE_FIELDS:
                return True
            # the decision whether a part runs at all
            if isinstance(x, ast.Call) and isinstance(x.func, ast.Attribute) and x.func.attr == 'has_any_code':
                return True
            if isinstance(x, ast.Subscript) and isinstance(x.slice, ast.Constant) and x.slice.value in ('SKIP', 'REQUIRES', 'IGNORE_WANT'):
                return True
        return False

    LABELS = {'text', 'dsrc', 'dcnt', 'want'}

    def _returns_labels(self, m):
        """a transition helper of the line labeller: it returns line labels (the constants or names bound to them at module level)"""
        consts = {}
        for st in self.tree.body:
            if isinstance(st, ast.Assign) and len(st.targets) == 1 and isinstance(st.targets[0], ast.Name) and isinstance(st.value, ast.Constant) and st.value.value in self.LABELS:
                consts[st.targets[0].id] = st.value.value
        n = 0
        for x in ast.walk(m):
            if isinstance(x, ast.Return) and x.value is not None:
                for y in ast.walk(x.value):
                    if (isinstance(y, ast.Constant) and y.value in self.LABELS) or (isinstance(y, ast.Name) and y.id in consts):
                        n += 1
        return n >= 2

    @staticmethod
    def _is_static(m):
        return len(m.decorator_list) == 1 and isinstance(m.decorator_list[0], ast.Name) and m.decorator_list[0].id == 'staticmethod'

    def _eligible(self, host, m):
        if m is host or (m.decorator_list and not self._is_static(m)) or m.args.vararg or m.args.kwarg or len(m.body) > 80:
            return False
        if self.host_key == ('DocTest', 'run'):
            if not self._carries_obligation_sites(m):
                return False
        elif not self._returns_labels(m):
            return False
        for x in ast.walk(m):
            if isinstance(x, (ast.Yield, ast.YieldFrom, ast.Await, ast.Global, ast.Nonlocal)):
                return False
            if x is not m and isinstance(x, (ast.FunctionDef, ast.AsyncFunctionDef, ast.Lambda, ast.ClassDef)):
                return False
        return True

    def _block(self, stmts, host, methods):
        out = []
        for st in stmts:
            for fld in ('body', 'orelse', 'finalbody'):
                if isinstance(getattr(st, fld, None), list) and not isinstance(st, (ast.FunctionDef, ast.AsyncFunctionDef, ast.ClassDef)):
                    setattr(st, fld, self._block(getattr(st, fld), host, methods))
            if isinstance(st, ast.Try):
                for h in st.handlers:
                    h.body = self._block(h.body, host, methods)
            call, target = None, None
            if isinstance(st, ast.Assign) and len(st.targets) == 1 and isinstance(st.value, ast.Call):
                call, target = st.value, st.targets[0]
            elif isinstance(st, ast.Expr) and isinstance(st.value, ast.Call):
                call = st.value
            if call is not None and isinstance(call.func, ast.Attribute) and isinstance(call.func.value, ast.Name) and host.args.args \
                    and call.func.value.id == host.args.args[0].arg and call.func.attr in methods and self._eligible(host, methods[call.func.attr]):
                try:
                    out += self._expand(st, call, target, host, methods[call.func.attr], has_recv=not self._is_static(methods[call.func.attr]))
                    continue
                except Exception:       # any shape the expander does not handle: the call is left as it is
                    pass
            elif call is not None and isinstance(call.func, ast.Name) and call.func.id in self.module_funcs and self._eligible(host, self.module_funcs[call.func.id]):
                try:
                    out += self._expand(st, call, target, host, self.module_funcs[call.func.id], has_recv=False)
                    continue
                except Exception:       # any shape the expander does not handle: the call is left as it is
                    pass
            out.append(st)
        return out

    def _expand(self, st, call, target, host, m, has_recv=True, tail=False):
        import copy
        if any(isinstance(a, ast.Starred) for a in call.args) or any(k.arg is None for k in call.keywords):
            raise ValueError('star arguments')
        self.counter += 1
        tag = '__%s_%d_' % (m.name.strip('_'), self.counter)
        params = [a.arg for a in m.args.posonlyargs + m.args.args] + [a.arg for a in m.args.kwonlyargs]
        if not has_recv:
            params = ['<no receiver>'] + params
        recv_m = params[0]
        recv_h = host.args.args[0].arg if host.args.args else '<no receiver>'
        bound = {}
        pos = params[1:len(m.args.posonlyargs + m.args.args) + (0 if has_recv else 1)]
        for p_, a in zip(pos, call.args):
            bound[p_] = a
        if len(call.args) > len(pos):
            raise ValueError('too many arguments')
        for k in call.keywords:
            if k.arg not in params or k.arg in bound:
                raise ValueError('unknown keyword')
            bound[k.arg] = k.value
        defaults = dict(zip([a.arg for a in (m.args.posonlyargs + m.args.args)][-len(m.args.defaults):] if m.args.defaults else [], m.args.defaults))
        defaults.update({a.arg: d for a, d in zip(m.args.kwonlyargs, m.args.kw_defaults) if d is not None})
        for p_ in params[1:]:
            if p_ not in bound:
                if p_ not in defaults:
                    raise ValueError('unbound parameter')
                bound[p_] = copy.deepcopy(defaults[p_])
        body = [copy.deepcopy(x) for x in m.body if not (isinstance(x, ast.Expr) and isinstance(x.value, ast.Constant) and isinstance(x.value.value, str))]
        stored = {x.id for b in body for x in ast.walk(b) if isinstance(x, ast.Name) and isinstance(x.ctx, (ast.Store, ast.Del))}
        for b in body:
            for x in ast.walk(b):
                if isinstance(x, ast.ExceptHandler) and x.name:
                    stored.add(x.name)
        mapping = {recv_m: recv_h} if has_recv else {}
        pre = []
        for p_ in params[1:]:
            a = bound[p_]
            if isinstance(a, ast.Name) and a.id == p_ and (p_ not in stored or tail):
                mapping[p_] = p_
                continue            # identity binding of a name the helper never rebinds
            mapping[p_] = tag + p_
            asg = ast.Assign(targets=[ast.Name(id=tag + p_, ctx=ast.Store())], value=a, type_comment=None)
            pre.append(ast.copy_location(asg, st))
        for nm in stored:
            if nm not in mapping:
                mapping[nm] = tag + nm
        ren = _Rename(mapping)
        body = [ren.visit(b) for b in body]
        for b in body:
            for x in ast.walk(b):
                if isinstance(x, ast.ExceptHandler) and x.name in mapping:
                    x.name = mapping[x.name]

        def make_result(ret):
            if target is None:
                if ret.value is None:
                    return [ast.copy_location(ast.Pass(), ret)]
                return [ast.copy_location(ast.Expr(value=ret.value), ret)]
            v = ret.value if ret.value is not None else ast.copy_location(ast.Constant(value=None), ret)
            return [ast.copy_location(ast.Assign(targets=[copy.deepcopy(target)], value=v, type_comment=None), ret)]
        if tail:
            # `return helper(...)`: the helper's own returns leave the host just the same
            new_body = body + ([] if _always_leaves(body) else [ast.copy_location(ast.Return(value=ast.Constant(value=None)), st)])
        else:
            new_body = _structure_returns(body, make_result)
        if not tail and target is not None and not _always_assigns(new_body):
            # falling off the end of the helper returns None
            new_body.append(ast.copy_location(ast.Assign(targets=[copy.deepcopy(target)], value=ast.Constant(value=None), type_comment=None), st)) if not _has_tail_assign(new_body) else None
        res = pre + new_body
        for x in res:
            x._inlined_from = m.name
            ast.fix_missing_locations(x)
        return res or [ast.copy_location(ast.Pass(), st)]


def _has_tail_assign(stmts):
    return False


def _always_assigns(stmts):
    """conservative: the rewritten body ends every path by the result assignment (it came from `return v` in tail position)"""
    if not stmts:
        return False
    last = stmts[-1]
    if isinstance(last, ast.Assign):
        return True
    if isinstance(last, ast.Raise):
        return True
    if isinstance(last, ast.If):
        return _always_assigns(last.body) and _always_assigns(last.orelse)
    return False


_KNOWN = None


def known_functions():
    """functions and methods of the analysed package as confirmed by hand on the pinned tree (tools/mkknown.py).  The table takes no part in any
    verdict: a function that is NOT in it is a helper somebody extracted later, and its body is expanded into its callers so that every rule keeps
    seeing the statements it reasons about"""
    global _KNOWN
    if _KNOWN is None:
        import json
        path = os.path.join(os.path.dirname(os.path.abspath(__file__)), 'known_functions.json')
        with open(path) as fh:
            data = json.load(fh)
        _KNOWN = {k: set(v) for k, v in data['functions'].items()}
        _KNOWN_EXTRA.update({'digests': data.get('digests', {}), 'attrs': data.get('attrs', {}), 'constants': data.get('constants', {}), 'shapes': data.get('shapes', {}),
                             'params': data.get('params', {}), 'features': data.get('features', {})})
    return _KNOWN


_KNOWN_EXTRA = {}


def fn_digest(node):
    """shape of a function without its name, docstring and positions (only used to recognise a function that was renamed or moved)"""
    import hashlib
    body = [b for b in node.body if not (isinstance(b, ast.Expr) and isinstance(b.value, ast.Constant) and isinstance(b.value.value, str))]
    text = ast.dump(node.args) + '|' + '|'.join(ast.dump(b) for b in body)
    text = text.replace(repr(node.name), "'<own name>'")
    return hashlib.md5(text.encode('utf8')).hexdigest()[:16]


def fn_shape(node):
    """like fn_digest, but blind to the names of the function's own variables, of the fields it reaches through its first parameter and of
    the functions and classes nested in it: the shape that survives a consistent renaming"""
    import copy
    import hashlib
    n = copy.deepcopy(node)
    n.body = [b for b in n.body if not (isinstance(b, ast.Expr) and isinstance(b.value, ast.Constant) and isinstance(b.value.value, str))]
    for x in ast.walk(n):
        if isinstance(x, (ast.FunctionDef, ast.ClassDef)) and x.body and isinstance(x.body[0], ast.Expr) and isinstance(x.body[0].value, ast.Constant) and isinstance(x.body[0].value.value, str):
            x.body = x.body[1:] or [ast.Pass()]
    bound = set()
    for x in ast.walk(n):
        if isinstance(x, ast.arg):
            bound.add(x.arg)
        elif isinstance(x, ast.Name) and isinstance(x.ctx, (ast.Store, ast.Del)):
            bound.add(x.id)
        elif isinstance(x, (ast.FunctionDef, ast.ClassDef)) and x is not n:
            bound.add(x.name)
        elif isinstance(x, ast.ExceptHandler) and x.name:
            bound.add(x.name)
    recv = n.args.args[0].arg if n.args.args else None
    names, attrs = {}, {}

    def nm(v):
        return names.setdefault(v, 'v%d' % len(names))
    # ast.walk is breadth first; a source-order walk gives stable numbering
    class _V(ast.NodeVisitor):
        def visit_arg(self, x):
            x.arg = nm(x.arg)

        def visit_Name(self, x):
            if x.id in bound:
                x.id = nm(x.id)

        scope = [0]

        def visit_Attribute(self, x):
            self.generic_visit(x)
            if isinstance(x.value, ast.Name) and recv is not None and x.value.id == names.get(recv):
                # the receiver of a method of a nested class is another object: its fields are numbered on their own
                tab = attrs.setdefault(self.scope[-1], {})
                x.attr = tab.setdefault(x.attr, 'a%d_%d' % (self.scope[-1], len(tab)))

        def visit_FunctionDef(self, x):
            if x is not n:
                x.name = nm(x.name)
            self.generic_visit(x)

        def visit_ClassDef(self, x):
            x.name = nm(x.name)
            self.scope.append(len(attrs) + len(self.scope))
            self.generic_visit(x)
            self.scope.pop()

        def visit_ExceptHandler(self, x):
            if x.name:
                x.name = nm(x.name)
            self.generic_visit(x)

        def visit_keyword(self, x):
            self.generic_visit(x)
    _V().visit(n)
    text = ast.dump(n.args) + '|' + '|'.join(ast.dump(b) for b in n.body)
    return hashlib.md5(text.encode('utf8')).hexdigest()[:16]


def fn_features(node):
    """what a function does, as a set of words: the attributes it reaches, the functions it calls by name, its short string constants"""
    out = set()
    body = [b for b in node.body if not (isinstance(b, ast.Expr) and isinstance(b.value, ast.Constant) and isinstance(b.value.value, str))]
    for b in body:
        for x in ast.walk(b):
            if isinstance(x, ast.Attribute):
                out.add('.' + x.attr)
            elif isinstance(x, ast.Call) and isinstance(x.func, ast.Name):
                out.add(x.func.id + '()')
            elif isinstance(x, ast.Constant) and isinstance(x.value, str) and 0 < len(x.value) <= 24:
                out.add(repr(x.value))
    return sorted(out)


def _toplevel(body):
    for n in body:
        if isinstance(n, (ast.If, ast.Try)):
            for fld in ('body', 'orelse', 'finalbody'):
                yield from _toplevel(getattr(n, fld, []) or [])
            for h in getattr(n, 'handlers', []):
                yield from _toplevel(h.body)
        else:
            yield n


def function_table(tree):
    """{qualname: node} for module-level functions, methods and the functions nested directly in them"""
    out = {}

    def nested(prefix, fn):
        for st in _toplevel(fn.body):
            if isinstance(st, ast.FunctionDef):
                out[prefix + '.' + st.name] = st
    for n in _toplevel(tree.body):
        if isinstance(n, ast.FunctionDef):
            out[n.name] = n
            nested(n.name, n)
        elif isinstance(n, ast.ClassDef):
            for m in n.body:
                if isinstance(m, ast.FunctionDef):
                    out[n.name + '.' + m.name] = m
                    nested(n.name + '.' + m.name, m)
    return out


def attr_signatures(tree):
    """{class: {attribute of the receiver: 'method:L method:S ...'}}: where each field of an object is read and written by its own methods"""
    out = {}
    for n in _toplevel(tree.body):
        if not isinstance(n, ast.ClassDef):
            continue
        sig = {}
        for m in n.body:
            if isinstance(m, ast.FunctionDef) and m.args.args:
                recv = m.args.args[0].arg
                called = {id(x.func) for x in ast.walk(m) if isinstance(x, ast.Call)}
                for x in ast.walk(m):
                    if isinstance(x, ast.Attribute) and isinstance(x.value, ast.Name) and x.value.id == recv:
                        sig.setdefault(x.attr, []).append('%s:%s' % (m.name, 'S' if isinstance(x.ctx, (ast.Store, ast.Del)) else ('C' if id(x) in called else 'L')))
        # only data fields: bound somewhere in the class and never called
        out[n.name] = {a: ' '.join(sorted(v)) for a, v in sig.items() if any(e.endswith(':S') for e in v) and not any(e.endswith(':C') for e in v)}
    return out


def undo_renames(trees):
    """trees: {relpath: ast.Module}.  A function of the table of known functions that is gone, while exactly one function that is not in the table
    has the very same shape, was renamed (same module) or moved (other module): it gets its known name and place back, and every mention of the
    new name in the package follows.  The same for a field of a class whose uses in the methods of the class are exactly those of a vanished
    known field.  Returns the number of names restored."""
    known_functions()
    digests, attrs = _KNOWN_EXTRA['digests'], _KNOWN_EXTRA['attrs']
    tables = {rel: function_table(t) for rel, t in trees.items()}
    all_known_names = {q.rsplit('.', 1)[-1] for rel in digests for q in digests[rel]}
    vanished = [(rel, q) for rel in digests if rel in trees for q in digests[rel] if q not in tables[rel]]
    news = [(rel, q, n) for rel in tables for q, n in tables[rel].items() if q not in digests.get(rel, {}) and rel in digests]
    # methods of a class that is itself new stay where they are: the class as a whole is dealt with later (local objects, callable objects)
    kf = known_functions()
    new_classes = {(rel, c.name) for rel, t in trees.items() for c in _toplevel(t.body) if isinstance(c, ast.ClassDef) and rel in kf and (c.name + '.') not in kf[rel]}
    news = [(rel, q, n) for (rel, q, n) in news if (rel, q.split('.')[0]) not in new_classes]
    renames = {}       # new simple name -> known simple name
    moves = []
    shapes = _KNOWN_EXTRA.get('shapes', {})
    for (rel, q) in vanished:
        d = digests[rel][q]
        cands = [(r2, q2, n) for (r2, q2, n) in news if fn_digest(n) == d]
        if not cands and q in shapes.get(rel, {}):
            # renamed together with its variables / fields: the shape that is blind to those names, among the new functions of the same owner
            owner = q.rsplit('.', 1)[0] if '.' in q else ''
            same_shape = [k for k, v in shapes[rel].items() if v == shapes[rel][q]]
            if len(same_shape) == 1:
                cands = [(r2, q2, n) for (r2, q2, n) in news if r2 == rel and (q2.rsplit('.', 1)[0] if '.' in q2 else '') == owner and fn_shape(n) == shapes[rel][q]]
        if len(cands) != 1:
            continue
        r2, q2, node = cands[0]
        new_simple, old_simple = q2.rsplit('.', 1)[-1], q.rsplit('.', 1)[-1]
        if new_simple in all_known_names and new_simple != old_simple:
            continue
        if new_simple != old_simple:
            renames[new_simple] = old_simple
        owner_old, owner_new = q.rsplit('.', 1)[0] if '.' in q else '', q2.rsplit('.', 1)[0] if '.' in q2 else ''
        if r2 != rel or owner_old != owner_new:
            moves.append((rel, q, r2, q2, node))
    n_restored = len(renames) + len(moves)
    # fields
    field_renames = {}
    for rel, t in trees.items():
        now = attr_signatures(t)
        for cls, known_sig in attrs.get(rel, {}).items():
            cur = now.get(cls)
            if cur is None:
                continue
            gone = {a: s_ for a, s_ in known_sig.items() if a not in cur}
            fresh = {a: s_ for a, s_ in cur.items() if a not in known_sig}
            for a, s_ in gone.items():
                m = [b for b, s2 in fresh.items() if s2 == s_]
                if len(m) == 1 and sum(1 for s2 in gone.values() if s2 == s_) == 1:
                    field_renames[m[0]] = a
    n_restored += len(field_renames)
    if not n_restored:
        return 0
    for (rel, q, r2, q2, node) in moves:
        # take the definition out of where it is now ...
        def drop(body):
            for i, st in enumerate(body):
                if st is node:
                    del body[i]
                    return True
                for fld in ('body', 'orelse', 'finalbody'):
                    sub = getattr(st, fld, None)
                    if isinstance(sub, list) and not isinstance(st, (ast.FunctionDef,)) and drop(sub):
                        return True
                if isinstance(st, ast.FunctionDef) and drop(st.body):
                    return True
            return False
        drop(trees[r2].body)
        # ... and put it back where it is known
        owner = q.rsplit('.', 1)[0] if '.' in q else ''
        if not owner:
            trees[rel].body.append(node)
        else:
            host = tables[rel].get(owner)
            cls = next((c for c in _toplevel(trees[rel].body) if isinstance(c, ast.ClassDef) and c.name == owner), None)
            if host is not None:
                k = 1 if host.body and isinstance(host.body[0], ast.Expr) and isinstance(host.body[0].value, ast.Constant) else 0
                host.body.insert(k, node)
            elif cls is not None:
                cls.body.append(node)
        new_simple = q2.rsplit('.', 1)[-1]
        old_simple = q.rsplit('.', 1)[-1]
        # in the module that owns it again, `othermodule.name(...)` and the imported name are the plain name
        for x in ast.walk(trees[rel]):
            for fld, val in ast.iter_fields(x):
                if isinstance(val, ast.Attribute) and val.attr in (new_simple, old_simple) and isinstance(val.value, ast.Name) and r2 != rel:
                    setattr(x, fld, ast.copy_location(ast.Name(id=old_simple, ctx=val.ctx), val))
                elif isinstance(val, list):
                    for i, y in enumerate(val):
                        if isinstance(y, ast.Attribute) and y.attr in (new_simple, old_simple) and isinstance(y.value, ast.Name) and r2 != rel:
                            val[i] = ast.copy_location(ast.Name(id=old_simple, ctx=y.ctx), y)
        for st in list(ast.walk(trees[rel])):
            if isinstance(st, ast.ImportFrom):
                st.names = [a for a in st.names if a.name not in (new_simple, old_simple)] or [ast.alias(name='__nothing__', asname=None)]
    for t in trees.values():
        for x in ast.walk(t):
            if isinstance(x, ast.FunctionDef) and x.name in renames:
                x.name = renames[x.name]
            elif isinstance(x, ast.Name) and x.id in renames:
                x.id = renames[x.id]
            elif isinstance(x, ast.Attribute):
                if x.attr in renames:
                    x.attr = renames[x.attr]
                elif x.attr in field_renames:
                    x.attr = field_renames[x.attr]
            elif isinstance(x, ast.alias) and x.name in renames:
                x.name = renames[x.name]
    return n_restored


class _HoistCalls(ast.NodeTransformer):
    """replace calls of new helpers that sit inside a larger expression by a temporary assigned just before the statement (only where the call
    is evaluated unconditionally and exactly once)"""

    def __init__(self, is_new_call, counter):
        self.is_new_call = is_new_call
        self.counter = counter
        self.pre = []

    def visit_Lambda(self, node):
        return node
    visit_ListComp = visit_SetComp = visit_DictComp = visit_GeneratorExp = visit_IfExp = visit_Lambda

    def visit_BoolOp(self, node):
        node.values[0] = self.visit(node.values[0])
        return node

    def visit_Call(self, node):
        self.generic_visit(node)
        if self.is_new_call(node):
            self.counter[0] += 1
            nm = '__hoisted_%d' % self.counter[0]
            self.pre.append(ast.copy_location(ast.Assign(targets=[ast.Name(id=nm, ctx=ast.Store())], value=node, type_comment=None), node))
            return ast.copy_location(ast.Name(id=nm, ctx=ast.Load()), node)
        return node


class _InlineNewHelpers(_InlineMethods):
    """expand, in every function of a module, the calls of same-module functions and same-class methods that are not in the table of known
    functions (extract-function refactorings)"""

    def __init__(self, tree, known, foreign=None, modname='', is_pkg=False, known_digests=None, known_params=None, known_features=None, relpath=None):
        _InlineMethods.__init__(self, tree)
        self.known = known
        # hosts that HAD a nested function which is gone now: only there a new helper can be a lifted closure
        now = function_table(tree)
        self.lost_nested = {}
        self.lost_params = {}
        self.lost_features = {}
        for q in (known_digests or {}):
            if q.count('.') >= 1 and q not in now:
                hostq = q.rsplit('.', 1)[0]
                if hostq in now and hostq in known_digests:
                    self.lost_nested.setdefault(id(now[hostq]), []).append(q.rsplit('.', 1)[1])
                    self.lost_digests = getattr(self, 'lost_digests', {})
                    self.lost_digests.setdefault(id(now[hostq]), {})[known_digests[q]] = q.rsplit('.', 1)[1]
                    self.lost_params.setdefault(id(now[hostq]), []).append((known_params or {}).get(q))
                    self.lost_features.setdefault(id(now[hostq]), []).append(set((known_features or {}).get(q) or ()))
        self.hcount = [0]
        self.relpath_ = relpath
        self.foreign = foreign or {}
        self.modname = modname
        self.is_pkg = is_pkg
        self.imported_new = {}      # local name -> (function node, its module, its module tree)
        self.module_aliases = {}    # local name -> dotted module
        self.synthetic_imports = set()
        if self.foreign:
            fmods = {m for (m, _n) in self.foreign}
            for x in ast.walk(tree):
                if isinstance(x, ast.ImportFrom):
                    base = x.module or ''
                    if x.level:
                        parts = modname.split('.')
                        if not is_pkg:
                            parts = parts[:-1]
                        parts = parts[:len(parts) - x.level + 1]
                        base = '.'.join(parts + ([x.module] if x.module else []))
                    for a in x.names:
                        if (base, a.name) in self.foreign and base != modname:
                            self.imported_new[a.asname or a.name] = self.foreign[(base, a.name)] + (base,)
                        elif (base + '.' + a.name) in fmods:
                            self.module_aliases[a.asname or a.name] = base + '.' + a.name
                elif isinstance(x, ast.Import):
                    for a in x.names:
                        if a.name in fmods and a.asname:
                            self.module_aliases[a.asname] = a.name

    def run(self):
        self.module_funcs = {n.name: n for n in self.tree.body if isinstance(n, ast.FunctionDef)}
        self.new_funcs = {k: v for k, v in self.module_funcs.items() if k not in self.known}
        classes = [n for n in self.tree.body if isinstance(n, ast.ClassDef)]
        new_methods = {}
        for cls in classes:
            for m in cls.body:
                if isinstance(m, ast.FunctionDef) and (cls.name + '.' + m.name) not in self.known and cls.name in {k.split('.')[0] for k in self.known if '.' in k}:
                    new_methods.setdefault(cls.name, {})[m.name] = m
        self.local_objects = {}
        self._find_local_objects(classes)
        if not self.new_funcs and not new_methods and not self.imported_new and not self.module_aliases and not self.local_objects and not getattr(self, '_class_infos', None):
            return False
        self.touched = {}
        self.expanded = set()
        self.host_names = {}
        self.records = _record_types(self.tree)
        self.methods = {}
        restored = self._restore_callable_objects(classes)
        if not self.new_funcs and not new_methods and not self.imported_new and not self.module_aliases and not self.local_objects and not restored:
            return False
        self.records = _record_types(self.tree)
        self._restore_closures(classes, new_methods)
        self.host_names = {}
        self.records = _record_types(self.tree)
        for _ in range(3):
            for fn in self.module_funcs.values():
                self.methods = {}
                fn.body = self._block(fn.body, fn, {})
            for cls in classes:
                self.methods = dict(new_methods.get(cls.name, {}))
                own = {m.name for m in cls.body if isinstance(m, ast.FunctionDef)}
                for b in cls.bases:
                    # new helpers of a base class of this module, unless overridden here
                    if isinstance(b, ast.Name):
                        for k, v in new_methods.get(b.id, {}).items():
                            if k not in own:
                                self.methods.setdefault(k, v)
                for m in cls.body:
                    if isinstance(m, ast.FunctionDef):
                        m.body = self._block(m.body, m, self.methods)
        self._dissolve_local_objects()
        self._drop_dead_helpers(classes, new_methods)
        records = _record_types(self.tree)
        for fn in self.touched.values():
            for _ in range(3):
                _scalar_replacement(fn, records)
                _propagate_temporaries(fn)
            _fuse_filtering_generators(fn)
            _explicit_star_kwargs(fn)
            # `if helper(..) and B:` became `t = <expanded helper>; if t and B:` -- the two conditions are tested one after the other
            for x in ast.walk(fn):
                if isinstance(x, ast.If) and not x.orelse and isinstance(x.test, ast.BoolOp) and isinstance(x.test.op, ast.And) and \
                        isinstance(x.test.values[0], ast.Name) and x.test.values[0].id.startswith('__hoisted'):
                    rest = x.test.values[1:]
                    inner = ast.copy_location(ast.If(test=rest[0] if len(rest) == 1 else ast.copy_location(ast.BoolOp(op=ast.And(), values=rest), x.test), body=x.body, orelse=[]), x)
                    x.test = x.test.values[0]
                    x.body = [inner]
        return True

    def _restore_closures(self, classes, new_methods):
        """a new helper that is only ever called -- at two or more places -- from ONE function is a nested function that was lifted out of it:
        it is put back as a nested function; parameters that receive the same plain name at every call become the closure variables they
        stand for, an unpacking of a tuple of such names (or a field read of a small record of them) becomes those names"""
        import copy
        hosts = [(None, fn) for fn in self.module_funcs.values()] + [(cls, m) for cls in classes for m in cls.body if isinstance(m, ast.FunctionDef)]
        cands = [(None, h) for h in self.new_funcs.values()] + [(cls, h) for cls in classes for h in new_methods.get(cls.name, {}).values()]
        for (hcls, H) in cands:
            if H.decorator_list and not self._is_static(H):
                continue
            if H.args.vararg or H.args.kwarg or any(isinstance(x, (ast.Yield, ast.YieldFrom, ast.Global, ast.Nonlocal)) for x in ast.walk(H)):
                continue
            static = self._is_static(H)
            sites = {}
            other_mentions = 0
            for (gcls, G) in hosts:
                if G is H:
                    continue
                grecv = G.args.args[0].arg if (gcls is not None and G.args.args and not G.decorator_list) else None
                calls = set()
                for x in ast.walk(G):
                    if isinstance(x, ast.Call):
                        f_ = x.func
                        if hcls is None and isinstance(f_, ast.Name) and f_.id == H.name:
                            sites.setdefault(id(G), (gcls, G, []))[2].append(x)
                            calls.add(id(f_))
                        elif hcls is not None and gcls is hcls and isinstance(f_, ast.Attribute) and f_.attr == H.name and isinstance(f_.value, ast.Name) and f_.value.id == grecv:
                            sites.setdefault(id(G), (gcls, G, []))[2].append(x)
                            calls.add(id(f_))
                for x in ast.walk(G):
                    if id(x) in calls:
                        continue
                    if (isinstance(x, ast.Name) and x.id == H.name) or (isinstance(x, ast.Attribute) and x.attr == H.name):
                        other_mentions += 1
            if other_mentions or len(sites) != 1:
                continue
            (gcls, G, calls) = next(iter(sites.values()))
            if len(calls) < 2 or any(isinstance(a, ast.Starred) for c in calls for a in c.args) or any(k.arg is None for c in calls for k in c.keywords):
                continue
            if not self.lost_nested.get(id(G)):
                continue        # nothing was lifted out of this function: a helper called twice is a duplicated block, it is expanded at both places
            # ... and it must do what one of the lost nested functions did (half of the words they use in common), or it is just a new helper
            mine = set(fn_features(H))
            sims = [len(mine & fs) / float(len(mine | fs) or 1) for fs in self.lost_features.get(id(G), [])]
            hp = [a.arg for a in H.args.posonlyargs + H.args.args + H.args.kwonlyargs]

            def subsequence(small, big):
                it = iter(big)
                return all(x in it for x in small)
            keeps_params = any(pl and subsequence(pl, hp) for pl in self.lost_params.get(id(G), []) if pl is not None)
            if not keeps_params and (not sims or max(sims) < 0.5):
                continue
            self.lost_nested[id(G)].pop()
            plain = [a.arg for a in H.args.posonlyargs + H.args.args]
            recv_m = None
            if hcls is not None and not static:
                recv_m, plain = plain[0], plain[1:]
            kwonly = [a.arg for a in H.args.kwonlyargs]
            stored = {x.id for x in ast.walk(H) if isinstance(x, ast.Name) and isinstance(x.ctx, (ast.Store, ast.Del))}
            # what every call passes for each parameter
            passed = {p_: [] for p_ in plain + kwonly}
            ok = True
            for c in calls:
                if len(c.args) > len(plain):
                    ok = False
                    break
                seen = set()
                for p_, a in zip(plain, c.args):
                    passed[p_].append(a)
                    seen.add(p_)
                for k in c.keywords:
                    if k.arg not in passed or k.arg in seen:
                        ok = False
                        break
                    passed[k.arg].append(k.value)
                    seen.add(k.arg)
                for p_ in passed:
                    if p_ not in seen:
                        passed[p_].append(None)
            if not ok:
                continue
            closure = {}
            gstores = _stores(G)
            # the parameters the function had when it was nested (known from the pinned tree): whatever it takes beyond them was captured
            was = [pl for pl in self.lost_params.get(id(G), []) if pl is not None and len(pl) <= len(plain + kwonly)]
            was = sorted(was, key=lambda pl: -len(pl))
            own = None
            for pl in was:
                if len(plain + kwonly) - len(pl) == sum(1 for p_, vals in passed.items() if vals and all(isinstance(v, ast.Name) for v in vals) and len({v.id for v in vals}) == 1 and p_ not in stored) or True:
                    own = len(pl)
                    break
            for p_, vals in passed.items():
                if vals and all(isinstance(v, ast.Name) for v in vals) and len({v.id for v in vals}) == 1 and p_ not in stored:
                    a = vals[0].id
                    if a != p_ and a in stored:
                        continue
                    if own is None and gstores.get(a, 0) > 1:
                        continue        # a name that changes in the host (a loop variable, a running index) is a real argument
                    closure[p_] = a
            if own is not None and len(plain + kwonly) - len(closure) < own:
                # more candidates than were captured: those that are rebound in the host are the real arguments
                for p_ in sorted(closure, key=lambda k: -gstores.get(closure[k], 0)):
                    if len(plain + kwonly) - len(closure) >= own:
                        break
                    del closure[p_]
            mapping = dict(closure)
            if recv_m is not None:
                grecv = G.args.args[0].arg
                mapping[recv_m] = grecv
            new = copy.deepcopy(H)
            new.decorator_list = []
            keep_pos = [a for a in new.args.posonlyargs + new.args.args if a.arg not in closure and a.arg != recv_m]
            n_def = len(new.args.defaults)
            all_pos = new.args.posonlyargs + new.args.args
            dmap = {a.arg: d for a, d in zip(all_pos[len(all_pos) - n_def:], new.args.defaults)} if n_def else {}
            new.args.posonlyargs = []
            new.args.args = keep_pos
            new.args.defaults = [dmap[a.arg] for a in keep_pos if a.arg in dmap]
            if any(a.arg in dmap for a in keep_pos) and not all(a.arg in dmap for a in keep_pos[[a.arg in dmap for a in keep_pos].index(True):]):
                continue
            kk = [(a, d) for a, d in zip(new.args.kwonlyargs, new.args.kw_defaults) if a.arg not in closure]
            new.args.kwonlyargs = [a for a, _d in kk]
            new.args.kw_defaults = [d for _a, d in kk]
            ren = _Rename({k: v for k, v in mapping.items() if k != v})
            new.body = [ren.visit(b) for b in new.body]
            # aggregates of G that the lifted function took apart
            aggs = {}
            for x in ast.walk(G):
                if isinstance(x, ast.Assign) and len(x.targets) == 1 and isinstance(x.targets[0], ast.Name) and gstores.get(x.targets[0].id) == 1:
                    v = x.value
                    if isinstance(v, ast.Tuple) and v.elts and all(isinstance(e, ast.Name) for e in v.elts):
                        aggs[x.targets[0].id] = ('tuple', [e.id for e in v.elts])
                    elif isinstance(v, ast.Call) and isinstance(v.func, ast.Name) and v.func.id in self.records and all(k.arg for k in v.keywords):
                        fields = self.records[v.func.id]
                        vals = dict(zip(fields, v.args))
                        vals.update({k.arg: k.value for k in v.keywords})
                        if set(vals) == set(fields) and all(isinstance(a, ast.Name) for a in vals.values()):
                            aggs[x.targets[0].id] = ('record', {f_: a.id for f_, a in vals.items()}, [vals[f_].id for f_ in fields])
            body2 = []
            for b in new.body:
                if isinstance(b, ast.Assign) and len(b.targets) == 1 and isinstance(b.targets[0], ast.Tuple) and isinstance(b.value, ast.Name) and b.value.id in aggs:
                    names = aggs[b.value.id][1] if aggs[b.value.id][0] == 'tuple' else aggs[b.value.id][2]
                    tn = [e.id if isinstance(e, ast.Name) else None for e in b.targets[0].elts]
                    if tn == names:
                        continue        # the names are the closure variables themselves
                body2.append(b)
            new.body = body2 or [ast.copy_location(ast.Pass(), H)]
            still_stored = {x.id for x in ast.walk(new) if isinstance(x, ast.Name) and isinstance(x.ctx, (ast.Store, ast.Del))}

            class _F(ast.NodeTransformer):
                def visit_Attribute(self_, node):
                    self_.generic_visit(node)
                    if isinstance(node.ctx, ast.Load) and isinstance(node.value, ast.Name) and node.value.id in aggs and aggs[node.value.id][0] == 'record' and \
                            node.attr in aggs[node.value.id][1] and aggs[node.value.id][1][node.attr] not in still_stored:
                        return ast.copy_location(ast.Name(id=aggs[node.value.id][1][node.attr], ctx=ast.Load()), node)
                    return node

                def visit_Subscript(self_, node):
                    self_.generic_visit(node)
                    if isinstance(node.ctx, ast.Load) and isinstance(node.value, ast.Name) and node.value.id in aggs and isinstance(node.slice, ast.Constant) and isinstance(node.slice.value, int):
                        names = aggs[node.value.id][1] if aggs[node.value.id][0] == 'tuple' else aggs[node.value.id][2]
                        if 0 <= node.slice.value < len(names) and names[node.slice.value] not in still_stored:
                            return ast.copy_location(ast.Name(id=names[node.slice.value], ctx=ast.Load()), node)
                    return node
            new = _F().visit(new)
            # the calls
            for c in calls:
                c.func = ast.copy_location(ast.Name(id=H.name, ctx=ast.Load()), c.func)
                c.args = [a for p_, a in zip(plain, c.args) if p_ not in closure]
                c.keywords = [k for k in c.keywords if k.arg not in closure]
            # where: before the first statement of G that contains one of the calls
            call_ids = {id(c) for c in calls}
            pos = next((i for i, st in enumerate(G.body) if any(id(x) in call_ids for x in ast.walk(st))), len(G.body))
            new._restored_closure = True
            G.body.insert(pos, new)
            ast.fix_missing_locations(G)
            # the lifted definition is gone
            if hcls is None:
                self.tree.body = [st for st in self.tree.body if st is not H]
                self.new_funcs.pop(H.name, None)
                self.module_funcs.pop(H.name, None)
            else:
                hcls.body = [m for m in hcls.body if m is not H] or [ast.Pass()]
                new_methods.get(hcls.name, {}).pop(H.name, None)

    def _drop_dead_helpers(self, classes, new_methods):
        """a private new helper that was expanded at every place it is mentioned in this module is no longer part of the analysed program (rules
        that look at every function of a module would otherwise see its statements twice)"""
        cands = {k: v for k, v in self.new_funcs.items() if k.startswith('_') and id(v) in self.expanded}
        mcands = {(c, k): v for c, ms in new_methods.items() for k, v in ms.items() if k.startswith('_') and id(v) in self.expanded}
        if not cands and not mcands:
            return
        # a new private module-level table of literals / names that nothing reads any more (its loop was unrolled) goes first
        kc = _KNOWN_EXTRA.get('constants', {}).get(self.relpath_) if getattr(self, 'relpath_', None) else None
        if kc is not None:
            loaded = {x.id for x in ast.walk(self.tree) if isinstance(x, ast.Name) and isinstance(x.ctx, ast.Load)} | \
                {x.value for x in ast.walk(self.tree) if isinstance(x, ast.Constant) and isinstance(x.value, str)}
            self.tree.body = [st for st in self.tree.body if not (
                isinstance(st, ast.Assign) and len(st.targets) == 1 and isinstance(st.targets[0], ast.Name) and st.targets[0].id.startswith('_') and not st.targets[0].id.startswith('__') and
                st.targets[0].id not in kc and st.targets[0].id not in loaded and isinstance(st.value, (ast.Tuple, ast.List, ast.Dict, ast.Set)) and _is_literal_table(st.value))]
        mentioned = set()
        for x in ast.walk(self.tree):
            if isinstance(x, ast.Name):
                mentioned.add(x.id)
            elif isinstance(x, ast.Attribute):
                mentioned.add(x.attr)
            elif isinstance(x, ast.Constant) and isinstance(x.value, str) and x.value.isidentifier():
                mentioned.add(x.value)
        self.tree.body = [st for st in self.tree.body if not (isinstance(st, ast.FunctionDef) and st.name in cands and st.name not in mentioned)]
        for cls in classes:
            cls.body = [m for m in cls.body if not (isinstance(m, ast.FunctionDef) and (cls.name, m.name) in mcands and m.name not in mentioned)] or [ast.Pass()]

    def _eligible(self, host, m, generator=False):
        if m is host or (m.decorator_list and not self._is_static(m)) or m.args.vararg or m.args.kwarg or len(m.body) > 120:
            return False
        # protocol methods (visitor dispatch, dunders) are reached through their base class, they are not helpers
        if m.name.startswith('visit') or m.name == 'generic_visit' or (m.name.startswith('__') and m.name.endswith('__')):
            return False
        is_gen = any(isinstance(x, (ast.Yield, ast.YieldFrom)) for x in ast.walk(m))
        if is_gen != generator:
            return False
        for x in ast.walk(m):
            if isinstance(x, (ast.Await, ast.Global, ast.Nonlocal)):
                return False
            if x is not m and isinstance(x, (ast.AsyncFunctionDef, ast.ClassDef)):
                return False
            # (nested functions and lambdas are carried along when no name of the helper has to change, see _expand)
            # a helper that calls itself is not expanded
            if isinstance(x, ast.Call) and ((isinstance(x.func, ast.Name) and x.func.id == m.name) or (isinstance(x.func, ast.Attribute) and x.func.attr == m.name)):
                return False
        return True

    def _callee(self, call, host):
        """the new helper a call refers to: (node, has_recv) or None"""
        if isinstance(call.func, ast.Name) and call.func.id in self.new_funcs:
            return self.new_funcs[call.func.id], False
        if isinstance(call.func, ast.Name) and call.func.id in self.imported_new and call.func.id not in self.module_funcs:
            return self.imported_new[call.func.id][0], False
        if isinstance(call.func, ast.Attribute) and isinstance(call.func.value, ast.Name) and call.func.value.id in self.module_aliases and \
                (self.module_aliases[call.func.value.id], call.func.attr) in self.foreign:
            return self.foreign[(self.module_aliases[call.func.value.id], call.func.attr)][0], False
        if isinstance(call.func, ast.Attribute) and isinstance(call.func.value, ast.Name) and host.args.args and call.func.value.id == host.args.args[0].arg \
                and call.func.attr in self.methods:
            m = self.methods[call.func.attr]
            if not host.decorator_list:
                return m, not self._is_static(m)
            # from a classmethod only a static helper can be reached through `cls.`
            if len(host.decorator_list) == 1 and isinstance(host.decorator_list[0], ast.Name) and host.decorator_list[0].id == 'classmethod' and self._is_static(m):
                return m, False
        if isinstance(call.func, ast.Attribute) and isinstance(call.func.value, ast.Name) and call.func.value.id in self.local_objects.get(id(host), {}):
            info = self.local_objects[id(host)][call.func.value.id]
            if call.func.attr in info['methods']:
                return info['methods'][call.func.attr], not self._is_static(info['methods'][call.func.attr])
        return None

    def _restore_callable_objects(self, classes):
        """a nested function that was turned into a callable object -- `f = C(a, b)` with `C.__call__`, or `f = C(a, b).method` -- of a NEW small
        class whose fields only carry what the closure used to capture: it becomes the nested function again (the fields are the captured
        names; other methods of the class are expanded into it).  Only when `f` is bound once and only ever called, the class is used for
        nothing else, and the captured names are not rebound in the host."""
        import copy
        infos = getattr(self, '_class_infos', {})
        done = False
        if not infos:
            return False
        uses = {}
        for x in ast.walk(self.tree):
            if isinstance(x, ast.Name) and x.id in infos:
                uses[x.id] = uses.get(x.id, 0) + 1
        hosts = [fn for fn in self.tree.body if isinstance(fn, ast.FunctionDef)] + [m for c in classes for m in c.body if isinstance(m, ast.FunctionDef) and c.name not in infos]
        for G in hosts:
            stores = _stores(G)
            for holder in ast.walk(G):
                for fld in ('body', 'orelse', 'finalbody'):
                    lst = getattr(holder, fld, None)
                    if not isinstance(lst, list):
                        continue
                    for i, st in enumerate(lst):
                        if not (isinstance(st, ast.Assign) and len(st.targets) == 1 and isinstance(st.targets[0], ast.Name) and stores.get(st.targets[0].id) == 1):
                            continue
                        v = st.value
                        mname = '__call__'
                        if isinstance(v, ast.Attribute) and isinstance(v.value, ast.Call):
                            mname, v = v.attr, v.value
                        if not (isinstance(v, ast.Call) and isinstance(v.func, ast.Name) and v.func.id in infos and uses.get(v.func.id) == 1):
                            continue
                        info = infos[v.func.id]
                        if info['kind'] != 'plain' or mname not in info['methods'] or self._is_static(info['methods'][mname]):
                            continue
                        f = st.targets[0].id
                        # f is only ever called
                        call_funcs = {id(c.func) for c in ast.walk(G) if isinstance(c, ast.Call)}
                        if any(isinstance(y, ast.Name) and y.id == f and y is not st.targets[0] and id(y) not in call_funcs for y in ast.walk(G)):
                            continue
                        if any(isinstance(a, ast.Starred) for a in v.args) or any(k.arg is None for k in v.keywords):
                            continue
                        init = info['init']
                        pnames = [a.arg for a in init.args.args[1:]]
                        if len(v.args) > len(pnames):
                            continue
                        bound = dict(zip(pnames, v.args))
                        bad = False
                        for k in v.keywords:
                            if k.arg not in pnames or k.arg in bound:
                                bad = True
                            bound[k.arg] = k.value
                        defaults = dict(zip(pnames[len(pnames) - len(init.args.defaults):], init.args.defaults)) if init.args.defaults else {}
                        for p_ in pnames:
                            if p_ not in bound:
                                if p_ in defaults:
                                    bound[p_] = defaults[p_]
                                else:
                                    bad = True
                        # every field is a captured plain name (or constant) that the host does not rebind
                        fieldvals = {}
                        for f_, val in info['init_vals']:
                            val2 = _Subst(bound).visit(copy.deepcopy(val))
                            if not _is_pure_path(val2) and not isinstance(val2, ast.Constant):
                                bad = True
                            for y in ast.walk(val2):
                                if isinstance(y, ast.Name) and stores.get(y.id, 0) > 1:
                                    # bound more than once: fine when every binding comes before the object is made (a closure reads the variable
                                    # when it is called, the object read it when it was made)
                                    later = [z for z in ast.walk(G) if isinstance(z, ast.Name) and z.id == y.id and isinstance(z.ctx, (ast.Store, ast.Del)) and getattr(z, 'lineno', 0) >= st.lineno]
                                    in_loop = any(isinstance(lp, (ast.For, ast.While)) and any(z is st for z in ast.walk(lp)) and
                                                  any(isinstance(z, ast.Name) and z.id == y.id and isinstance(z.ctx, (ast.Store, ast.Del)) for z in ast.walk(lp)) for lp in ast.walk(G))
                                    nested = any(isinstance(fn_, (ast.FunctionDef, ast.Lambda)) and fn_ is not G and any(isinstance(z, ast.Name) and z.id == y.id for z in ast.walk(fn_)) for fn_ in ast.walk(G))
                                    if later or in_loop or nested:
                                        bad = True
                            fieldvals[f_] = val2
                        if bad:
                            continue
                        fieldvals.update({k_: copy.deepcopy(v_) for k_, v_ in info.get('consts', {}).items()})
                        m = copy.deepcopy(info['methods'][mname])
                        recv = m.args.args[0].arg
                        others = {k: v_ for k, v_ in info['methods'].items() if k != mname}
                        # a static method that is, statement for statement, a nested function the host lost comes back as that nested function
                        siblings = []
                        for k, v_ in list(others.items()):
                            lost = getattr(self, 'lost_digests', {}).get(id(G), {})
                            if self._is_static(v_) and fn_digest(v_) in lost:
                                nm = lost[fn_digest(v_)]
                                sib = copy.deepcopy(v_)
                                sib.name = nm
                                sib.decorator_list = []
                                siblings.append((k, nm, sib))
                                del others[k]
                        if siblings:
                            ren = {k: nm for (k, nm, _s) in siblings}

                            class _S(ast.NodeTransformer):
                                def visit_Attribute(self_, node):
                                    self_.generic_visit(node)
                                    if isinstance(node.value, ast.Name) and node.value.id == recv and node.attr in ren:
                                        return ast.copy_location(ast.Name(id=ren[node.attr], ctx=ast.Load()), node)
                                    return node
                            m = _S().visit(m)
                        # the class's other methods are written out inside it
                        if others:
                            saved = self.methods if hasattr(self, 'methods') else {}
                            self.methods = others
                            for _ in range(2):
                                m.body = self._block(m.body, m, others)
                            self.methods = saved
                        if any(isinstance(y, ast.Attribute) and isinstance(y.value, ast.Name) and y.value.id == recv and y.attr in others for y in ast.walk(m)):
                            continue
                        if any(isinstance(y, ast.Attribute) and isinstance(y.value, ast.Name) and y.value.id == recv and isinstance(y.ctx, (ast.Store, ast.Del)) for y in ast.walk(m)):
                            continue
                        inner_names = {y.id for y in ast.walk(m) if isinstance(y, ast.Name)} | {a.arg for a in m.args.args}
                        if any(isinstance(y, ast.Name) and y.id in inner_names for val2 in fieldvals.values() for y in ast.walk(val2)):
                            # a captured name that the body also uses as a local of its own would be shadowed
                            if any(isinstance(y, ast.Name) and y.id in {z.id for z in ast.walk(m) if isinstance(z, ast.Name) and isinstance(z.ctx, ast.Store)} | {a.arg for a in m.args.args}
                                   for val2 in fieldvals.values() for y in ast.walk(val2)):
                                continue

                        class _F(ast.NodeTransformer):
                            def visit_Attribute(self_, node):
                                self_.generic_visit(node)
                                if isinstance(node.value, ast.Name) and node.value.id == recv and node.attr in fieldvals:
                                    return ast.copy_location(copy.deepcopy(fieldvals[node.attr]), node)
                                return node
                        m = _F().visit(m)
                        if any(isinstance(y, ast.Name) and y.id == recv for b in m.body for y in ast.walk(b)):
                            continue
                        m.name = f
                        m.args.args = m.args.args[1:]
                        m.decorator_list = []
                        m.body = [b for b in m.body if not (isinstance(b, ast.Expr) and isinstance(b.value, ast.Constant) and isinstance(b.value.value, str))] or [ast.Pass()]
                        ast.fix_missing_locations(m)
                        lst[i:i + 1] = [ast.fix_missing_locations(sib) for (_k, _nm, sib) in siblings] + [m]
                        self.touched[id(G)] = G
                        # the class is no longer part of the analysed program
                        self.tree.body = [b for b in self.tree.body if b is not info['cls']]
                        done = True
        return done


    def _find_local_objects(self, classes):
        """a NEW small class (state with a few methods) of which a function makes an object that never leaves it -- bound once by `x = C(...)`,
        afterwards only `x.field` and `x.method(...)` -- is the function's own locals in another dress: its methods are expanded like helpers
        (with x as the receiver) and afterwards every field is a plain variable again"""
        known_classes = {k[:-1] for k in self.known if k.endswith('.')}
        infos = {}
        for cls in classes:
            if cls.name in known_classes or cls.decorator_list or cls.keywords:
                continue
            fields = None
            if len(cls.bases) == 1 and isinstance(cls.bases[0], ast.Call):
                b = cls.bases[0]
                if ((isinstance(b.func, ast.Name) and b.func.id == 'namedtuple') or (isinstance(b.func, ast.Attribute) and b.func.attr == 'namedtuple')) and len(b.args) == 2 and not b.keywords:
                    spec = b.args[1]
                    if isinstance(spec, (ast.List, ast.Tuple)) and all(isinstance(e, ast.Constant) and isinstance(e.value, str) for e in spec.elts):
                        fields = [e.value for e in spec.elts]
                    elif isinstance(spec, ast.Constant) and isinstance(spec.value, str):
                        fields = spec.value.replace(',', ' ').split()
                if fields is None:
                    continue
                kind = 'record'
            elif not cls.bases or (len(cls.bases) == 1 and isinstance(cls.bases[0], ast.Name) and cls.bases[0].id == 'object'):
                kind = 'plain'
            else:
                continue
            ok = True
            methods = {}
            consts = {}
            for st in cls.body:
                if isinstance(st, ast.Expr) and isinstance(st.value, ast.Constant):
                    continue
                if isinstance(st, ast.Pass):
                    continue
                if isinstance(st, ast.Assign) and len(st.targets) == 1 and isinstance(st.targets[0], ast.Name) and st.targets[0].id == '__slots__':
                    continue
                if isinstance(st, ast.Assign) and len(st.targets) == 1 and isinstance(st.targets[0], ast.Name) and \
                        (isinstance(st.value, ast.Constant) or (isinstance(st.value, (ast.Tuple, ast.List)) and all(isinstance(e, ast.Constant) for e in st.value.elts))):
                    consts[st.targets[0].id] = st.value       # a class-level constant of literals
                    continue
                if isinstance(st, ast.FunctionDef) and not st.decorator_list and st.args.args and not st.args.vararg and not st.args.kwarg and not st.args.posonlyargs:
                    methods[st.name] = st
                    continue
                if isinstance(st, ast.FunctionDef) and self._is_static(st) and len(st.decorator_list) == 1 and not st.args.vararg and not st.args.kwarg and not st.args.posonlyargs and st.name != '__init__':
                    methods[st.name] = st
                    continue
                ok = False
            if not ok:
                continue
            init = methods.pop('__init__', None)
            if any(k.startswith('__') and k.endswith('__') and k != '__call__' for k in methods) or (kind == 'record' and init is not None) or (kind == 'plain' and init is None):
                continue
            stored = set()
            for m in list(methods.values()) + ([init] if init else []):
                if self._is_static(m):
                    if any(isinstance(x, (ast.Yield, ast.YieldFrom, ast.Await, ast.Global, ast.Nonlocal, ast.Lambda)) or (isinstance(x, ast.FunctionDef) and x is not m) for x in ast.walk(m)):
                        ok = False
                    continue
                recv = m.args.args[0].arg
                if any(isinstance(x, (ast.Yield, ast.YieldFrom, ast.Await, ast.Global, ast.Nonlocal, ast.Lambda)) or (isinstance(x, ast.FunctionDef) and x is not m) for x in ast.walk(m)):
                    ok = False
                attr_values = {id(x.value) for x in ast.walk(m) if isinstance(x, ast.Attribute)}
                for x in ast.walk(m):
                    if isinstance(x, ast.Name) and x.id == recv and (not isinstance(x.ctx, ast.Load) or id(x) not in attr_values):
                        ok = False      # the object itself is handed on, or the receiver is rebound
                    if isinstance(x, ast.Attribute) and isinstance(x.value, ast.Name) and x.value.id == recv and isinstance(x.ctx, (ast.Store, ast.Del)):
                        stored.add(x.attr)
            if not ok:
                continue
            init_vals = None
            if kind == 'plain':
                # the constructor only fills fields, one plain statement each
                recv = init.args.args[0].arg
                init_vals = []
                body = [b for b in init.body if not (isinstance(b, ast.Expr) and isinstance(b.value, ast.Constant))]
                def recv_only_calls_static(v):
                    # the receiver may appear in a field's first value only to call a static method of the class (which does not look at the object)
                    okc = {id(c.func.value) for c in ast.walk(v) if isinstance(c, ast.Call) and isinstance(c.func, ast.Attribute) and isinstance(c.func.value, ast.Name) and
                           c.func.value.id == recv and c.func.attr in methods and self._is_static(methods[c.func.attr])}
                    return all(id(y) in okc for y in ast.walk(v) if isinstance(y, ast.Name) and y.id == recv)
                for b in body:
                    if isinstance(b, ast.Assign) and len(b.targets) == 1 and isinstance(b.targets[0], ast.Attribute) and isinstance(b.targets[0].value, ast.Name) and \
                            b.targets[0].value.id == recv and recv_only_calls_static(b.value):
                        init_vals.append((b.targets[0].attr, b.value))
                    else:
                        ok = False
                if not ok or len({f for f, _v in init_vals}) != len(init_vals) or init.args.kwonlyargs:
                    continue
                fields = [f for f, _v in init_vals]
                if stored - set(fields):
                    continue            # a field that only some method creates
            else:
                if stored:
                    continue            # a tuple's fields are not assigned
            if set(fields) & set(methods):
                continue
            # every use of the receiver in a method is a field or a method of the class
            for m in methods.values():
                if self._is_static(m):
                    continue
                recv = m.args.args[0].arg
                for x in ast.walk(m):
                    if isinstance(x, ast.Attribute) and isinstance(x.value, ast.Name) and x.value.id == recv and x.attr not in fields and x.attr not in methods and \
                            not (x.attr in consts and isinstance(x.ctx, ast.Load)):
                        ok = False
            if not ok or (set(consts) & (set(fields) | set(methods))):
                continue
            infos[cls.name] = {'cls': cls, 'kind': kind, 'fields': fields, 'methods': methods, 'init': init, 'init_vals': init_vals, 'consts': consts}
        self._class_infos = infos
        if not infos:
            return
        # the class is used for nothing but making such objects
        uses = {}
        for x in ast.walk(self.tree):
            if isinstance(x, ast.Name) and x.id in infos:
                uses[x.id] = uses.get(x.id, 0) + 1
            elif isinstance(x, ast.Constant) and isinstance(x.value, str) and x.value in infos and not any(x is b.args[0] for b in infos[x.value]['cls'].bases if isinstance(b, ast.Call) and b.args):
                uses[x.value] = uses.get(x.value, 0) + 100
        hosts = [fn for fn in self.tree.body if isinstance(fn, ast.FunctionDef)] + [m for c in classes for m in c.body if isinstance(m, ast.FunctionDef) and c.name not in infos]
        found = {}
        for G in hosts:
            stores = _stores(G)
            for st in ast.walk(G):
                if isinstance(st, ast.Assign) and len(st.targets) == 1 and isinstance(st.targets[0], ast.Name) and isinstance(st.value, ast.Call) and \
                        isinstance(st.value.func, ast.Name) and st.value.func.id in infos and stores.get(st.targets[0].id) == 1:
                    x = st.targets[0].id
                    info = infos[st.value.func.id]
                    if any(isinstance(a, ast.Starred) for a in st.value.args) or any(k.arg is None for k in st.value.keywords):
                        continue
                    attr_values = {id(a.value): a for a in ast.walk(G) if isinstance(a, ast.Attribute)}
                    call_funcs = {id(c.func) for c in ast.walk(G) if isinstance(c, ast.Call)}
                    good = True
                    for y in ast.walk(G):
                        if isinstance(y, ast.Name) and y.id == x and y is not st.targets[0]:
                            a = attr_values.get(id(y))
                            if a is None:
                                good = False
                            elif a.attr in info['methods']:
                                good = good and id(a) in call_funcs and isinstance(a.ctx, ast.Load)
                            elif a.attr in info['fields']:
                                good = good and (isinstance(a.ctx, ast.Load) or info['kind'] == 'plain')
                            else:
                                good = False
                    if good:
                        found.setdefault(id(G), {})[x] = dict(info, stmt=st, host=G)
        # all the mentions of the class are such constructions (plus its own definition's name in the namedtuple call)
        n_found = {}
        for objs in found.values():
            for o in objs.values():
                n_found[o['cls'].name] = n_found.get(o['cls'].name, 0) + 1
        for gid, objs in found.items():
            for x, o in objs.items():
                if uses.get(o['cls'].name, 0) == n_found[o['cls'].name]:
                    self.local_objects.setdefault(gid, {})[x] = o

    def _dissolve_local_objects(self):
        """after the methods were expanded: when the object is only looked at through its fields, the fields are variables"""
        import copy
        for gid, objs in self.local_objects.items():
            for x, o in objs.items():
                G, st = o['host'], o['stmt']
                attr_values = {id(a.value): a for a in ast.walk(G) if isinstance(a, ast.Attribute)}
                mentions = [y for y in ast.walk(G) if isinstance(y, ast.Name) and y.id == x and y is not st.targets[0]]
                if any(id(y) not in attr_values or attr_values[id(y)].attr not in o['fields'] for y in mentions):
                    continue            # a method call is left: the object stays an object
                if any(isinstance(f_, (ast.FunctionDef, ast.Lambda)) and f_ is not G and any(isinstance(y, ast.Name) and y.id == x for y in ast.walk(f_)) for f_ in ast.walk(G)):
                    continue
                call = st.value
                # the constructor's arguments by parameter
                if o['kind'] == 'record':
                    pnames = list(o['fields'])
                    defaults = {}
                else:
                    init = o['init']
                    pnames = [a.arg for a in init.args.args[1:]]
                    defaults = dict(zip(pnames[len(pnames) - len(init.args.defaults):], init.args.defaults)) if init.args.defaults else {}
                if len(call.args) > len(pnames):
                    continue
                bound = dict(zip(pnames, call.args))
                bad = False
                for k in call.keywords:
                    if k.arg not in pnames or k.arg in bound:
                        bad = True
                    bound[k.arg] = k.value
                for p_ in pnames:
                    if p_ not in bound:
                        if p_ in defaults:
                            bound[p_] = copy.deepcopy(defaults[p_])
                        else:
                            bad = True
                if bad:
                    continue
                if o['kind'] == 'record':
                    vals = [(f_, bound[f_]) for f_ in bound]           # in the order the call evaluates them
                else:
                    # each parameter is read at most once, in the order the arguments are evaluated (or the argument is a plain name or constant)
                    order = []
                    for f_, v in o['init_vals']:
                        for y in ast.walk(v):
                            if isinstance(y, ast.Name) and y.id in bound:
                                order.append(y.id)
                    simple = {p_ for p_, a in bound.items() if isinstance(a, (ast.Name, ast.Constant)) or (isinstance(a, (ast.List, ast.Dict, ast.Tuple, ast.Set)) and not list(ast.iter_child_nodes(a))[:-1])}
                    heavy = [p_ for p_ in order if p_ not in simple]
                    callorder = [p_ for p_ in bound if p_ not in simple]
                    if len(set(heavy)) != len(heavy) or heavy != [p_ for p_ in callorder if p_ in heavy] or set(callorder) - set(heavy):
                        continue
                    recv_i = o['init'].args.args[0].arg
                    vals = [(f_, _Subst({p_: a for p_, a in bound.items()}).visit(_Rename({recv_i: x}).visit(copy.deepcopy(v)))) for f_, v in o['init_vals']]
                    calls_back = any(isinstance(y, ast.Name) and y.id == recv_i for _f, v in o['init_vals'] for y in ast.walk(v))
                    if calls_back and len(objs) > 1:
                        continue
                    snapshot = copy.deepcopy(G.body) if calls_back else None
                # names of the field variables: the field's own name where the function has no such name
                taken = {y.id for y in ast.walk(G) if isinstance(y, ast.Name)} | {a.arg for a in G.args.posonlyargs + G.args.args + G.args.kwonlyargs}
                stored_fields = {a.attr for a in attr_values.values() if isinstance(a.value, ast.Name) and a.value.id == x and isinstance(a.ctx, (ast.Store, ast.Del))}
                gstores = _stores(G)
                names = {}
                new_stmts = []
                for f_, v in vals:
                    if f_ not in taken:
                        names[f_] = f_
                    elif isinstance(v, ast.Name) and v.id == f_ and f_ not in stored_fields and gstores.get(f_) == 1:
                        names[f_] = f_      # the field IS the function's variable of that name
                        continue
                    else:
                        names[f_] = '%s__%s' % (x, f_)
                    taken.add(names[f_])
                    new_stmts.append(ast.copy_location(ast.Assign(targets=[ast.Name(id=names[f_], ctx=ast.Store())], value=v, type_comment=None), st))

                class _A(ast.NodeTransformer):
                    def visit_Attribute(self_, node):
                        self_.generic_visit(node)
                        if isinstance(node.value, ast.Name) and node.value.id == x and node.attr in names:
                            return ast.copy_location(ast.Name(id=names[node.attr], ctx=node.ctx), node)
                        return node
                _A().visit(G)
                for y in ast.walk(G):
                    for fld in ('body', 'orelse', 'finalbody'):
                        lst = getattr(y, fld, None)
                        if isinstance(lst, list) and st in lst:
                            i = lst.index(st)
                            lst[i:i + 1] = new_stmts or [ast.copy_location(ast.Pass(), st)]
                for n_ in new_stmts:
                    ast.fix_missing_locations(n_)
                self.touched[id(G)] = G
                if o['kind'] == 'plain' and calls_back:
                    # the first values call static methods of the class: those are expanded now; if anything of the object is left, nothing is done at all
                    for _ in range(2):
                        G.body = self._block(G.body, G, {})
                    if any(isinstance(y, ast.Name) and y.id == x for y in ast.walk(G)):
                        G.body = snapshot
                        continue
                # the class is no longer part of the analysed program once nothing mentions it
                if not any(isinstance(y, ast.Name) and y.id == o['cls'].name for y in ast.walk(self.tree)):
                    self.tree.body = [b for b in self.tree.body if b is not o['cls']]

    def _block(self, stmts, host, methods):
        out = []
        skip = False
        for i_, st in enumerate(stmts):
            if skip:
                skip = False
                continue
            for fld in ('body', 'orelse', 'finalbody'):
                if isinstance(getattr(st, fld, None), list) and not isinstance(st, (ast.FunctionDef, ast.AsyncFunctionDef, ast.ClassDef)):
                    setattr(st, fld, self._block(getattr(st, fld), host, methods))
            if isinstance(st, ast.Try):
                for h in st.handlers:
                    h.body = self._block(h.body, host, methods)
            if isinstance(st, ast.FunctionDef) and not getattr(st, '_restored_closure', False):
                # calls inside a nested function are expanded there
                st.body = self._block(st.body, st, methods)
                out.append(st)
                continue
            if isinstance(st, (ast.FunctionDef, ast.AsyncFunctionDef, ast.ClassDef)):
                out.append(st)
                continue
            # a list comprehension that calls a new helper is written out as the loop it stands for
            lc = st.value if isinstance(st, (ast.Assign, ast.Return)) and isinstance(getattr(st, 'value', None), ast.ListComp) else None
            if lc is not None and len(lc.generators) == 1 and not lc.generators[0].is_async and \
                    (isinstance(st, ast.Return) or (len(st.targets) == 1 and isinstance(st.targets[0], ast.Name))) and \
                    any(isinstance(c, ast.Call) and self._callee(c, host) is not None for c in ast.walk(lc)):
                gen = lc.generators[0]
                self.counter += 1
                acc = st.targets[0].id if isinstance(st, ast.Assign) else '__collected_%d' % self.counter
                if not any(isinstance(x, ast.Name) and x.id == acc for x in ast.walk(lc)):
                    app = ast.Expr(value=ast.Call(func=ast.Attribute(value=ast.Name(id=acc, ctx=ast.Load()), attr='append', ctx=ast.Load()), args=[lc.elt], keywords=[]))
                    inner = [app]
                    for cond in reversed(gen.ifs):
                        inner = [ast.If(test=cond, body=inner, orelse=[])]
                    loop = ast.For(target=gen.target, iter=gen.iter, body=inner, orelse=[], type_comment=None)
                    init = ast.Assign(targets=[ast.Name(id=acc, ctx=ast.Store())], value=ast.List(elts=[], ctx=ast.Load()), type_comment=None)
                    new_stmts = [init, loop] + ([ast.Return(value=ast.Name(id=acc, ctx=ast.Load()))] if isinstance(st, ast.Return) else [])
                    for x in new_stmts:
                        ast.copy_location(x, st)
                        ast.fix_missing_locations(x)
                    self.touched[id(host)] = host
                    out += self._block(new_stmts, host, methods)
                    continue
            # a generator helper that is simply passed on: `yield from helper(...)` / `for t in helper(...): yield t`
            gcall = None
            if isinstance(st, ast.Expr) and isinstance(st.value, ast.YieldFrom) and isinstance(st.value.value, ast.Call):
                gcall = st.value.value
            elif isinstance(st, ast.For) and isinstance(st.iter, ast.Call) and not st.orelse and len(st.body) == 1 and isinstance(st.body[0], ast.Expr) and \
                    isinstance(st.body[0].value, ast.Yield) and isinstance(st.target, ast.Name) and isinstance(st.body[0].value.value, ast.Name) and st.body[0].value.value.id == st.target.id:
                gcall = st.iter
            if gcall is not None:
                r = self._callee(gcall, host)
                if r is not None and self._eligible(host, r[0], generator=True):
                    got = self._try_expand(st, gcall, None, host, on_return=lambda ret: [])
                    if got is not None:
                        out += got
                        continue
            # `return all(C(x) for x in helper(...))` / `any(...)` over a new generator helper is the loop it abbreviates
            if isinstance(st, ast.Return) and isinstance(st.value, ast.Call) and isinstance(st.value.func, ast.Name) and st.value.func.id in ('all', 'any') and \
                    len(st.value.args) == 1 and not st.value.keywords and isinstance(st.value.args[0], ast.GeneratorExp) and len(st.value.args[0].generators) == 1:
                gen = st.value.args[0]
                comp = gen.generators[0]
                if isinstance(comp.iter, ast.Call) and not comp.is_async and isinstance(comp.target, (ast.Name, ast.Tuple)):
                    r = self._callee(comp.iter, host)
                    host_names_now = {x.id for x in ast.walk(host) if isinstance(x, ast.Name)}
                    tn = {x.id for x in ast.walk(comp.target) if isinstance(x, ast.Name)}
                    gen_names = {x.id for x in ast.walk(gen) if isinstance(x, ast.Name)}
                    if r is not None and self._eligible(host, r[0], generator=True) and all(sum(1 for x in ast.walk(host) if isinstance(x, ast.Name) and x.id == t_) ==
                                                                                          sum(1 for x in ast.walk(gen) if isinstance(x, ast.Name) and x.id == t_) for t_ in tn):
                        is_all = st.value.func.id == 'all'
                        test = gen.elt
                        for c_ in reversed(comp.ifs):
                            pass
                        cond = ast.copy_location(ast.UnaryOp(op=ast.Not(), operand=test), test) if is_all else test
                        inner = ast.copy_location(ast.If(test=cond, body=[ast.copy_location(ast.Return(value=ast.copy_location(ast.Constant(value=not is_all), st)), st)], orelse=[]), st)
                        body_ = [inner]
                        for c_ in reversed(comp.ifs):
                            body_ = [ast.copy_location(ast.If(test=c_, body=body_, orelse=[]), st)]
                        loop = ast.copy_location(ast.For(target=comp.target, iter=comp.iter, body=body_, orelse=[], type_comment=None), st)
                        for y in ast.walk(loop.target):
                            if isinstance(y, ast.Name):
                                y.ctx = ast.Store()
                        tail_ = ast.copy_location(ast.Return(value=ast.copy_location(ast.Constant(value=is_all), st)), st)
                        ast.fix_missing_locations(loop)
                        out += self._block([loop, tail_], host, methods)
                        continue
            # `with helper(...) [as v]: BODY` with a new @contextmanager helper: the helper's statements with `v = <yielded value>; BODY` at its yield
            if isinstance(st, ast.With) and len(st.items) == 1 and isinstance(st.items[0].context_expr, ast.Call) and \
                    (st.items[0].optional_vars is None or isinstance(st.items[0].optional_vars, ast.Name)):
                r = self._callee_any(st.items[0].context_expr, host)
                if r is not None:
                    got = self._expand_context_manager(st, host, r)
                    if got is not None:
                        out += got
                        continue
            # `for x in helper(...): BODY` with a generator helper: the helper's statements with `x = <yielded value>; BODY` in place of each yield
            if isinstance(st, ast.For) and isinstance(st.iter, ast.Call) and isinstance(st.iter.func, ast.Name) and st.iter.func.id == 'enumerate' and len(st.iter.args) == 1 and \
                    not st.iter.keywords and isinstance(st.iter.args[0], ast.Call) and isinstance(st.target, ast.Tuple) and len(st.target.elts) == 2 and \
                    isinstance(st.target.elts[0], ast.Name) and isinstance(st.target.elts[1], (ast.Name, ast.Tuple)):
                # `for i, x in enumerate(helper(...))`: the same with a counter that is advanced at every yield
                r = self._callee(st.iter.args[0], host)
                if r is not None and self._eligible(host, r[0], generator=True):
                    import copy as _copy
                    st2 = _copy.copy(st)
                    st2.iter = st.iter.args[0]
                    st2.target = st.target.elts[1]
                    got = self._expand_generator_loop(st2, host, r, counter=st.target.elts[0].id)
                    if got is not None:
                        out += got
                        continue
            if isinstance(st, ast.For) and isinstance(st.iter, ast.Call) and isinstance(st.target, (ast.Name, ast.Tuple)):
                r = self._callee(st.iter, host)
                if r is not None and self._eligible(host, r[0], generator=True):
                    got = self._expand_generator_loop(st, host, r)
                    if got is not None:
                        out += got
                        continue
            # `x = helper(...)` directly followed by a test of x alone: every exit of the helper continues with the branch its value selects
            if i_ + 1 < len(stmts):
                both = self._expand_tested_result(st, stmts[i_ + 1], host)
                if both is not None:
                    out += both
                    skip = True
                    continue

            def is_new(c):
                r = self._callee(c, host)
                return r is not None and self._eligible(host, r[0])
            # calls buried in an expression are named first
            direct = None
            if isinstance(st, (ast.Assign, ast.Expr, ast.Return)) and isinstance(st.value, ast.Call) and is_new(st.value) and \
                    (not isinstance(st, ast.Assign) or (len(st.targets) == 1 and isinstance(st.targets[0], (ast.Name, ast.Attribute, ast.Tuple)))):
                direct = st.value
            pre = []
            h = _HoistCalls(is_new, self.hcount)
            if isinstance(st, (ast.Assign, ast.AugAssign, ast.AnnAssign, ast.Expr, ast.Return)) and st.value is not None:
                if direct is not None:
                    # only the arguments of the direct call
                    direct.args = [h.visit(a) for a in direct.args]
                    for k in direct.keywords:
                        k.value = h.visit(k.value)
                else:
                    st.value = h.visit(st.value)
            elif isinstance(st, ast.If):
                whole = self._expand_condition(st, host)
                if whole is not None:
                    out += whole
                    continue
                st.test = h.visit(st.test)
            elif isinstance(st, ast.For):
                st.iter = h.visit(st.iter)
            elif isinstance(st, ast.Assert):
                st.test = h.visit(st.test)
            pre = h.pre
            seq = []
            if len(pre) == 1 and direct is None and isinstance(st, (ast.Assign, ast.AugAssign, ast.AnnAssign, ast.Expr, ast.Return)):
                # the only use of the helper's value is this statement: the statement itself is what every `return v` of the helper continues with
                import copy
                tmp = pre[0].targets[0].id

                def on_return(ret, tmp=tmp, st=st):
                    v = ret.value if ret.value is not None else ast.copy_location(ast.Constant(value=None), ret)
                    return [ast.copy_location(_Subst({tmp: v}).visit(copy.deepcopy(st)), ret)]
                whole = self._try_expand(pre[0], pre[0].value, None, host, on_return=on_return)
                if whole is not None:
                    out += whole
                    continue
            for a in pre:
                # the value keeps the name the helper gave it, when it has one that is free in the host
                r_ = self._callee(a.value, host)
                if r_ is not None:
                    rn = {x.value.id for b in r_[0].body for x in ast.walk(b) if isinstance(x, ast.Return) and isinstance(x.value, ast.Name)}
                    if id(host) not in self.host_names:
                        self.host_names[id(host)] = {x.id for x in ast.walk(host) if isinstance(x, ast.Name)} | {y.arg for y in host.args.posonlyargs + host.args.args + host.args.kwonlyargs}
                    if len(rn) == 1 and next(iter(rn)) not in self.host_names[id(host)]:
                        better = next(iter(rn))
                        old_tmp = a.targets[0].id
                        a.targets[0].id = better
                        for x in ast.walk(st):
                            if isinstance(x, ast.Name) and x.id == old_tmp:
                                x.id = better
                        for a2 in pre:
                            for x in ast.walk(a2.value):
                                if isinstance(x, ast.Name) and x.id == old_tmp:
                                    x.id = better
                        self.host_names[id(host)] = self.host_names[id(host)] | {better}
            for a in pre:
                seq += self._try_expand(a, a.value, a.targets[0], host)
            if direct is not None:
                if isinstance(st, ast.Return):
                    seq += self._try_expand(st, direct, None, host, tail=True)
                else:
                    seq += self._try_expand(st, direct, st.targets[0] if isinstance(st, ast.Assign) else None, host)
            else:
                seq.append(st)
            out += seq
        return out

    def _expand(self, st, call, target, host, m, has_recv=True, tail=False, on_return=None, keep=()):
        """like the expander of the base class, but: locals keep their names unless the host uses the same name for something else (an extracted
        block usually kept the names it had); a `return` anywhere in the helper becomes the assignment of the call's target followed by a jump
        to the end of the expanded block (a constant-true `if` marked `_inlined_block_id`, the jump a `pass` marked `_leave_id`: the flow graph
        knows both); results that travel as a tuple are assigned element by element"""
        import copy
        if any(isinstance(a, ast.Starred) for a in call.args) or any(k.arg is None for k in call.keywords):
            raise ValueError('star arguments')
        self.counter += 1
        tag = '__%s_%d_' % (m.name.strip('_'), self.counter)
        plain = [a.arg for a in m.args.posonlyargs + m.args.args]
        params = plain + [a.arg for a in m.args.kwonlyargs]
        if has_recv:
            recv_m, params, plain = params[0], params[1:], plain[1:]
        bound = {}
        if len(call.args) > len(plain):
            raise ValueError('too many arguments')
        for p_, a in zip(plain, call.args):
            bound[p_] = a
        for k in call.keywords:
            if k.arg not in params or k.arg in bound:
                raise ValueError('unknown keyword')
            bound[k.arg] = k.value
        defaults = dict(zip([a.arg for a in (m.args.posonlyargs + m.args.args)][-len(m.args.defaults):] if m.args.defaults else [], m.args.defaults))
        defaults.update({a.arg: d for a, d in zip(m.args.kwonlyargs, m.args.kw_defaults) if d is not None})
        for p_ in params:
            if p_ not in bound:
                if p_ not in defaults:
                    raise ValueError('unbound parameter')
                bound[p_] = copy.deepcopy(defaults[p_])
        body = [copy.deepcopy(x) for x in m.body if not (isinstance(x, ast.Expr) and isinstance(x.value, ast.Constant) and isinstance(x.value.value, str))]
        stored = {x.id for b in body for x in ast.walk(b) if isinstance(x, ast.Name) and isinstance(x.ctx, (ast.Store, ast.Del))}
        for b in body:
            for x in ast.walk(b):
                if isinstance(x, ast.ExceptHandler) and x.name:
                    stored.add(x.name)
        if id(host) not in self.host_names:
            # the names of the host as written (names brought in by earlier expansions do not count as the host's own)
            self.host_names[id(host)] = {x.id for x in ast.walk(host) if isinstance(x, ast.Name)} | {a.arg for a in host.args.posonlyargs + host.args.args + host.args.kwonlyargs}
        host_names = self.host_names[id(host)]
        tnames = set()
        if isinstance(target, ast.Name):
            tnames = {target.id}
        elif isinstance(target, ast.Tuple) and all(isinstance(e, ast.Name) for e in target.elts):
            tnames = {e.id for e in target.elts}
        tnames |= set(keep)
        arg_names = {p_: {x.id for x in ast.walk(a) if isinstance(x, ast.Name)} for p_, a in bound.items()}
        mapping = {}
        subst = {}
        helper_names = {x.id for b in body for x in ast.walk(b) if isinstance(x, ast.Name)} | set(params)
        if has_recv:
            if isinstance(call.func, ast.Attribute) and isinstance(call.func.value, ast.Name) and call.func.value.id in self.local_objects.get(id(host), {}):
                mapping[recv_m] = call.func.value.id
            else:
                mapping[recv_m] = host.args.args[0].arg
        pre = []
        for p_ in params:
            a = bound[p_]
            if isinstance(a, ast.Name) and a.id == p_ and (p_ not in stored or tail or p_ in tnames or not _loaded_after(host, p_, st)):
                mapping[p_] = p_
                continue
            if p_ not in stored and _is_pure_path(a):
                subst[p_] = a           # a parameter that is only read stands for the plain expression it was given
                continue
            if isinstance(a, ast.Name) and a.id in tnames and a.id not in helper_names and list(arg_names.values()).count({a.id}) == 1:
                # `x = helper(x)`: the helper works on its parameter and hands it back; the host's x is replaced by the result anyway
                mapping[p_] = a.id
                continue
            keep = (p_ not in host_names or p_ in tnames) and not any(p_ in ns for q, ns in arg_names.items() if q != p_)
            mapping[p_] = p_ if keep else tag + p_
            asg = ast.Assign(targets=[ast.Name(id=mapping[p_], ctx=ast.Store())], value=a, type_comment=None)
            pre.append(ast.copy_location(asg, st))
        for nm in stored:
            if nm not in mapping:
                mapping[nm] = nm if (nm not in host_names or nm in tnames) else tag + nm
        if any(isinstance(x, (ast.FunctionDef, ast.Lambda)) for b in body for x in ast.walk(b)):
            # nested scopes are not rewritten: only possible when nothing has to be renamed or substituted
            if any(k != v for k, v in mapping.items()) or any(not isinstance(v, ast.Name) or v.id != k for k, v in subst.items()):
                inner_names = {y.id for b in body for x in ast.walk(b) if isinstance(x, (ast.FunctionDef, ast.Lambda)) for y in ast.walk(x) if isinstance(y, ast.Name)}
                if inner_names & ({k for k, v in mapping.items() if k != v} | set(subst)):
                    raise ValueError('nested scope mentions a name that would change')
            if any(isinstance(x, ast.FunctionDef) and x.name in host_names for b in body for x in ast.walk(b)):
                raise ValueError('nested function name clashes')
        ren = _Rename({k: v for k, v in mapping.items() if k != v})
        body = [ren.visit(b) for b in body]
        if subst:
            body = [_Subst(subst).visit(b) for b in body]
        for b in body:
            for x in ast.walk(b):
                if isinstance(x, ast.ExceptHandler) and x.name in mapping:
                    x.name = mapping[x.name]

        def result(ret):
            v = ret.value
            if target is None:
                if v is None or isinstance(v, (ast.Constant, ast.Name)):
                    return []
                return [ast.copy_location(ast.Expr(value=v), ret)]
            if v is None:
                v = ast.copy_location(ast.Constant(value=None), ret)
            if isinstance(target, ast.Tuple) and isinstance(v, ast.Call) and isinstance(v.func, ast.Name) and v.func.id in self.records and \
                    not any(isinstance(a, ast.Starred) for a in v.args) and all(k.arg for k in v.keywords):
                # a small record that is unpacked at once is the tuple of its fields
                fields = self.records[v.func.id]
                vals = dict(zip(fields, v.args))
                vals.update({k.arg: k.value for k in v.keywords})
                if set(vals) == set(fields) and len(fields) == len(target.elts):
                    v = ast.copy_location(ast.Tuple(elts=[vals[f_] for f_ in fields], ctx=ast.Load()), v)
            if isinstance(target, ast.Tuple) and isinstance(v, ast.Tuple) and len(target.elts) == len(v.elts) and all(isinstance(e, ast.Name) for e in target.elts):
                pairs = [(t, e) for t, e in zip(target.elts, v.elts) if not (isinstance(e, ast.Name) and e.id == t.id)]
                written = {t.id for t, _e in pairs}
                read = {x.id for _t, e in pairs for x in ast.walk(e) if isinstance(x, ast.Name)}
                if not (written & read):
                    return [ast.copy_location(ast.Assign(targets=[copy.deepcopy(t)], value=e, type_comment=None), ret) for t, e in pairs]
            if isinstance(target, ast.Name) and isinstance(v, ast.Name) and v.id == target.id:
                return []
            return [ast.copy_location(ast.Assign(targets=[copy.deepcopy(target)], value=v, type_comment=None), ret)]
        if on_return is not None:
            result = on_return
        if tail:
            new_body = body + ([] if _always_leaves(body) else [ast.copy_location(ast.Return(value=ast.Constant(value=None)), st)])
        else:
            rets = [x for b in body for x in ast.walk(b) if isinstance(x, ast.Return)]
            if not rets or (len(rets) == 1 and body and body[-1] is rets[0]):
                new_body = body[:-1] + result(body[-1]) if rets else list(body)
                if not rets and (target is not None or on_return is not None):
                    new_body += result(ast.copy_location(ast.Return(value=None), st))
            else:
                bid = self.counter

                class _R(ast.NodeTransformer):
                    def visit_Return(self_, node):
                        leave = ast.copy_location(ast.Pass(), node)
                        leave._leave_id = bid
                        return result(node) + [leave]

                    def visit_FunctionDef(self_, node):
                        return node
                    visit_Lambda = visit_AsyncFunctionDef = visit_FunctionDef
                inner = []
                for b in body:
                    r = _R().visit(b)
                    inner += r if isinstance(r, list) else [r]
                if not _always_leaves(body) and (target is not None or on_return is not None):
                    inner += result(ast.copy_location(ast.Return(value=None), st))
                blk = ast.copy_location(ast.If(test=ast.copy_location(ast.Constant(value=True), st), body=inner or [ast.copy_location(ast.Pass(), st)], orelse=[]), st)
                blk._inlined_block_id = bid
                new_body = [blk]
        res = pre + new_body
        for x in res:
            x._inlined_from = m.name
            ast.fix_missing_locations(x)
            for y in ast.walk(x):
                if isinstance(y, (ast.stmt, ast.Name)) and not hasattr(y, '_exp'):
                    y._exp = self.counter
        return res or [ast.copy_location(ast.Pass(), st)]

    @staticmethod
    def _is_contextmanager(m):
        return len(m.decorator_list) == 1 and ((isinstance(m.decorator_list[0], ast.Name) and m.decorator_list[0].id == 'contextmanager') or
                                               (isinstance(m.decorator_list[0], ast.Attribute) and m.decorator_list[0].attr == 'contextmanager'))

    def _callee_any(self, call, host):
        """like _callee, but also finds a decorated new method / function (the caller decides what the decorator means)"""
        r = self._callee(call, host)
        if r is not None:
            return r
        return None

    def _expand_context_manager(self, st, host, r):
        """`with cm(...) as v: BODY` where cm is a new generator function under @contextmanager with one yield: an exception of BODY is raised at
        the yield, so BODY simply stands where the yield stands.  Where the yield is not protected by a try, BODY must not leave early (the
        manager would still run what follows its yield, the inlined text would not)."""
        import copy
        m, has_recv = r
        if m is host or not self._is_contextmanager(m) or m.args.vararg or m.args.kwarg or len(m.body) > 60:
            return None
        ys = [x for x in ast.walk(m) if isinstance(x, (ast.Yield, ast.YieldFrom))]
        ystmts = [x for x in ast.walk(m) if isinstance(x, ast.Expr) and isinstance(x.value, ast.Yield)]
        if len(ys) != 1 or len(ystmts) != 1:
            return None
        if any(isinstance(x, (ast.FunctionDef, ast.Lambda, ast.Global, ast.Nonlocal, ast.Await)) and x is not m for x in ast.walk(m)):
            return None
        if any(isinstance(x, (ast.For, ast.While)) and any(z is ystmts[0] for z in ast.walk(x)) for x in ast.walk(m)):
            return None
        protected = any(isinstance(x, ast.Try) and any(z is ystmts[0] for b in x.body for z in ast.walk(b)) and x.finalbody for x in ast.walk(m))

        def leaves(stmts, in_loop=False):
            for s_ in stmts:
                if isinstance(s_, ast.Return) or (not in_loop and isinstance(s_, (ast.Break, ast.Continue))):
                    return True
                if isinstance(s_, (ast.FunctionDef, ast.AsyncFunctionDef, ast.ClassDef)):
                    continue
                loop = in_loop or isinstance(s_, (ast.For, ast.While))
                for fld in ('body', 'orelse', 'finalbody'):
                    if leaves(getattr(s_, fld, []) or [], loop):
                        return True
                for h_ in getattr(s_, 'handlers', []):
                    if leaves(h_.body, loop):
                        return True
            return False
        if not protected and leaves(st.body):
            return None

        class _Y(ast.NodeTransformer):
            def visit_Expr(self_, node):
                if isinstance(node.value, ast.Yield):
                    a = ast.copy_location(ast.Assign(targets=[ast.Name(id='__yielded__', ctx=ast.Store())], value=node.value.value or ast.Constant(value=None), type_comment=None), node)
                    return a
                return node
        m2 = _Y().visit(copy.deepcopy(m))
        m2.decorator_list = []
        ast.fix_missing_locations(m2)
        if any(isinstance(x, ast.Return) for x in ast.walk(m2)):
            return None
        try:
            res = self._expand(st, st.items[0].context_expr, None, host, m2, has_recv=has_recv, on_return=lambda ret: [])
        except Exception:
            return None
        var = st.items[0].optional_vars
        placed = [0]

        def place(stmts):
            out_ = []
            for s_ in stmts:
                if isinstance(s_, ast.Assign) and len(s_.targets) == 1 and isinstance(s_.targets[0], ast.Name) and s_.targets[0].id == '__yielded__':
                    if var is not None:
                        out_.append(ast.copy_location(ast.Assign(targets=[ast.Name(id=var.id, ctx=ast.Store())], value=s_.value, type_comment=None), s_))
                    elif not isinstance(s_.value, (ast.Constant, ast.Name)):
                        out_.append(ast.copy_location(ast.Expr(value=s_.value), s_))
                    out_ += st.body
                    placed[0] += 1
                    continue
                for fld in ('body', 'orelse', 'finalbody'):
                    sub = getattr(s_, fld, None)
                    if isinstance(sub, list) and not isinstance(s_, (ast.FunctionDef, ast.AsyncFunctionDef, ast.ClassDef)):
                        setattr(s_, fld, place(sub))
                for h_ in getattr(s_, 'handlers', []):
                    h_.body = place(h_.body)
                out_.append(s_)
            return out_
        res = place(res)
        if placed[0] != 1:
            return None
        for x in res:
            ast.fix_missing_locations(x)
        self.touched[id(host)] = host
        self.expanded.add(id(m))
        self._import_globals_of(m)
        return res

    def _expand_generator_loop(self, st, host, r, counter=None):
        """the consumer's loop body runs once per yield, at the yield: a `break` of the consumer leaves the whole expanded block, a `continue`
        goes on with the helper (only possible where the yield is the last thing its loop does), the helper's `return` ends the loop"""
        import copy
        m, has_recv = r
        ys = [x for x in ast.walk(m) if isinstance(x, (ast.Yield, ast.YieldFrom))]
        ystmts = [x for x in ast.walk(m) if isinstance(x, ast.Expr) and isinstance(x.value, ast.Yield)]
        if not ys or len(ys) != len(ystmts) or any(isinstance(x, ast.YieldFrom) for x in ys):
            return None
        if any(isinstance(x, (ast.FunctionDef, ast.Lambda)) and x is not m for x in ast.walk(m)):
            return None

        def level(stmts, kind):
            for s_ in stmts:
                if isinstance(s_, kind):
                    return True
                if isinstance(s_, (ast.For, ast.While, ast.FunctionDef, ast.AsyncFunctionDef, ast.ClassDef)):
                    continue
                for fld in ('body', 'orelse', 'finalbody'):
                    if level(getattr(s_, fld, []) or [], kind):
                        return True
                for h_ in getattr(s_, 'handlers', []):
                    if level(h_.body, kind):
                        return True
            return False
        has_break = level(st.body, ast.Break)
        has_continue = level(st.body, ast.Continue)
        size = sum(1 for b in st.body for x in ast.walk(b) if isinstance(x, ast.stmt))
        if len(ys) > 1 and size > 20:
            return None
        if has_continue:
            # every yield must be the last statement of the body of a loop of the helper
            ok = True
            for y in ystmts:
                owner = next((lp for lp in ast.walk(m) if isinstance(lp, (ast.For, ast.While)) and lp.body and lp.body[-1] is y), None)
                ok = ok and owner is not None
            if not ok:
                return None
        if any(isinstance(x, ast.Try) and any(y is z for y in ystmts for z in ast.walk(x)) for x in ast.walk(m)):
            return None                 # a yield under try / finally of the helper: the consumer's exceptions would pass through it

        class _Y(ast.NodeTransformer):
            def visit_Expr(self_, node):
                if isinstance(node.value, ast.Yield):
                    a = ast.copy_location(ast.Assign(targets=[ast.Name(id='__yielded__', ctx=ast.Store())], value=node.value.value or ast.Constant(value=None), type_comment=None), node)
                    a._yield_marker = True
                    return a
                return node
        m2 = _Y().visit(copy.deepcopy(m))
        ast.fix_missing_locations(m2)
        # a helper that yields its own variables under the names the consumer gives them is an extracted loop that kept its names
        def same(a, b):
            if isinstance(a, ast.Name) and isinstance(b, ast.Name):
                return a.id == b.id
            return isinstance(a, ast.Tuple) and isinstance(b, ast.Tuple) and len(a.elts) == len(b.elts) and all(same(x, y) for x, y in zip(a.elts, b.elts))
        keep = ()
        if all(y.value.value is not None and same(y.value.value, st.target) for y in ystmts):
            keep = tuple(x.id for x in ast.walk(st.target) if isinstance(x, ast.Name))
        try:
            res = self._expand(st, st.iter, None, host, m2, has_recv=has_recv, on_return=lambda ret: [], keep=keep)
        except Exception:
            return None
        self.counter += 1
        bid = self.counter

        class _B(ast.NodeTransformer):
            def visit_Break(self_, node):
                leave = ast.copy_location(ast.Pass(), node)
                leave._leave_id = bid
                return leave

            def visit_For(self_, node):
                return node
            visit_While = visit_FunctionDef = visit_AsyncFunctionDef = visit_Lambda = visit_For

        def body_copy():
            outb = []
            for b in st.body:
                nb = _B().visit(copy.deepcopy(b))
                outb += nb if isinstance(nb, list) else [nb]
            return outb

        def place(stmts):
            out_ = []
            for s_ in stmts:
                if isinstance(s_, ast.Assign) and len(s_.targets) == 1 and isinstance(s_.targets[0], ast.Name) and s_.targets[0].id == '__yielded__':
                    if counter is not None:
                        out_.append(ast.copy_location(ast.AugAssign(target=ast.Name(id=counter, ctx=ast.Store()), op=ast.Add(), value=ast.Constant(value=1)), s_))
                    if not same(s_.value, st.target):
                        out_.append(ast.copy_location(ast.Assign(targets=[copy.deepcopy(st.target)], value=s_.value, type_comment=None), s_))
                    out_ += body_copy()
                    continue
                for fld in ('body', 'orelse', 'finalbody'):
                    sub = getattr(s_, fld, None)
                    if isinstance(sub, list) and not isinstance(s_, (ast.FunctionDef, ast.AsyncFunctionDef, ast.ClassDef)):
                        setattr(s_, fld, place(sub))
                for h_ in getattr(s_, 'handlers', []):
                    h_.body = place(h_.body)
                out_.append(s_)
            return out_
        res = place(res)
        if counter is not None:
            res.insert(0, ast.copy_location(ast.Assign(targets=[ast.Name(id=counter, ctx=ast.Store())], value=ast.Constant(value=-1), type_comment=None), st))
        # `for ... else`: the else part runs when the helper is exhausted, i.e. after its statements; a `break` of the body jumps past it
        res += st.orelse
        if has_break:
            blk = ast.copy_location(ast.If(test=ast.copy_location(ast.Constant(value=True), st), body=res, orelse=[]), st)
            blk._inlined_block_id = bid
            res = [blk]
        for x in res:
            ast.fix_missing_locations(x)
        self.touched[id(host)] = host
        self.expanded.add(id(m))
        self._import_globals_of(m)
        return res

    def _try_expand(self, st, call, target, host, tail=False, on_return=None, keep=()):
        m, has_recv = self._callee(call, host)
        self.touched[id(host)] = host
        try:
            res = self._expand(st, call, target, host, m, has_recv=has_recv, tail=tail, on_return=on_return, keep=keep)
            self.expanded.add(id(m))
            self._import_globals_of(m)
            return res
        except Exception:
            return None if on_return is not None else [st]

    def _import_globals_of(self, m):
        """the body of a helper that lives in another module mentions the globals of THAT module: they are imported here under the same names"""
        home = next(((mod, tree) for (mod, _n), (node, tree) in self.foreign.items() if node is m), None)
        if home is None or home[0] == self.modname:
            return
        mod2, tree2 = home
        bound2 = set()
        for st in _toplevel(tree2.body):
            if isinstance(st, (ast.FunctionDef, ast.ClassDef)):
                bound2.add(st.name)
            elif isinstance(st, ast.Assign):
                bound2 |= {t.id for t in st.targets if isinstance(t, ast.Name)}
            elif isinstance(st, (ast.Import, ast.ImportFrom)):
                bound2 |= {(a.asname or a.name).split('.')[0] for a in st.names}
        here = set()
        for st in _toplevel(self.tree.body):
            if isinstance(st, (ast.FunctionDef, ast.ClassDef)):
                here.add(st.name)
            elif isinstance(st, ast.Assign):
                here |= {t.id for t in st.targets if isinstance(t, ast.Name)}
            elif isinstance(st, (ast.Import, ast.ImportFrom)):
                here |= {(a.asname or a.name).split('.')[0] for a in st.names}
        local = {a.arg for a in m.args.posonlyargs + m.args.args + m.args.kwonlyargs} | {x.id for x in ast.walk(m) if isinstance(x, ast.Name) and isinstance(x.ctx, ast.Store)}
        for x in ast.walk(m):
            if isinstance(x, ast.Name) and isinstance(x.ctx, ast.Load) and x.id in bound2 and x.id not in local and x.id not in here and (mod2, x.id) not in self.synthetic_imports:
                self.synthetic_imports.add((mod2, x.id))
                imp = ast.ImportFrom(module=mod2, names=[ast.alias(name=x.id, asname=None)], level=0)
                imp.lineno = imp.end_lineno = 1
                imp.col_offset = imp.end_col_offset = 0
                k = 1 if self.tree.body and isinstance(self.tree.body[0], ast.Expr) and isinstance(self.tree.body[0].value, ast.Constant) else 0
                self.tree.body.insert(k, imp)

    def _expand_tested_result(self, st, nxt, host):
        import copy
        if not (isinstance(st, ast.Assign) and len(st.targets) == 1 and isinstance(st.targets[0], ast.Name) and isinstance(st.value, ast.Call) and isinstance(nxt, ast.If)):
            return None
        X = st.targets[0].id
        r = self._callee(st.value, host)
        if r is None or not self._eligible(host, r[0]):
            return None
        names = {x.id for x in ast.walk(nxt.test) if isinstance(x, ast.Name)}
        if names != {X} or any(isinstance(x, ast.Call) for x in ast.walk(nxt.test)):
            return None
        branches = nxt.body + nxt.orelse
        if sum(1 for b in branches for _x in ast.walk(b) if isinstance(_x, ast.stmt)) > 8:
            return None
        if any(isinstance(x, (ast.Break, ast.Continue)) for b in branches for x in ast.walk(b)):
            return None
        rets = [x for b in r[0].body for x in ast.walk(b) if isinstance(x, ast.Return)]
        if len(rets) > 8:
            return None
        # the branch statements may themselves contain calls of new helpers
        nxt.body = self._block(nxt.body, host, self.methods)
        nxt.orelse = self._block(nxt.orelse, host, self.methods)

        def on_return(ret):
            v = ret.value if ret.value is not None else ast.copy_location(ast.Constant(value=None), ret)
            asg = [] if (isinstance(v, ast.Name) and v.id == X) else [ast.copy_location(ast.Assign(targets=[ast.Name(id=X, ctx=ast.Store())], value=v, type_comment=None), ret)]
            t = _static_truth(nxt.test, X, v, self.records)
            if t is None:
                return asg + [ast.copy_location(ast.If(test=copy.deepcopy(nxt.test), body=[copy.deepcopy(x) for x in nxt.body], orelse=[copy.deepcopy(x) for x in nxt.orelse]), ret)]
            return asg + [copy.deepcopy(x) for x in (nxt.body if t else nxt.orelse)]
        return self._try_expand(st, st.value, None, host, on_return=on_return, keep=(X,))

    def _expand_condition(self, st, host):
        """`if helper(...): A else: B` (or `if not helper(...)`): the helper's body with every `return v` replaced by the branch that v selects, so
        that each exit of the helper keeps the conditions it was taken under.  Only when A and B are small and cannot be captured by a loop of
        the helper (no break / continue)"""
        import copy
        test, neg = st.test, False
        if isinstance(test, ast.UnaryOp) and isinstance(test.op, ast.Not):
            test, neg = test.operand, True
        if not isinstance(test, ast.Call):
            return None
        r = self._callee(test, host)
        if r is None or not self._eligible(host, r[0]):
            return None
        m = r[0]
        branches = st.body + st.orelse
        rets = [x for b in m.body for x in ast.walk(b) if isinstance(x, ast.Return) and not isinstance(b, (ast.FunctionDef,))]
        single_tail = len(rets) == 1 and m.body and m.body[-1] is rets[0] and rets[0].value is not None
        if not single_tail:
            # the branches are copied to every return of the helper: only small ones, and none that a loop of the helper could capture
            if sum(1 for b in branches for _x in ast.walk(b) if isinstance(_x, ast.stmt)) > 8:
                return None
            if any(isinstance(x, (ast.Break, ast.Continue)) for b in branches for x in ast.walk(b)) and any(isinstance(x, (ast.For, ast.While)) for b in m.body for x in ast.walk(b)):
                return None
            if len(rets) > 6:
                return None
        if single_tail:
            # one value computed at the end: it simply becomes the condition
            def on_single(ret):
                t = ast.copy_location(ast.UnaryOp(op=ast.Not(), operand=ret.value), ret.value) if neg else ret.value
                return [ast.copy_location(ast.If(test=t, body=st.body, orelse=st.orelse), st)]
            return self._try_expand(st, test, None, host, on_return=on_single)

        def on_return(ret):
            v = ret.value
            if v is None or isinstance(v, ast.Constant):
                truth = bool(v.value) if v is not None else False
                chosen = st.body if truth != neg else st.orelse
                return [copy.deepcopy(x) for x in chosen]
            t = ast.copy_location(ast.UnaryOp(op=ast.Not(), operand=v), v) if neg else v
            new = ast.copy_location(ast.If(test=t, body=[copy.deepcopy(x) for x in st.body] or [ast.copy_location(ast.Pass(), ret)], orelse=[copy.deepcopy(x) for x in st.orelse]), ret)
            return [new]
        return self._try_expand(st, test, None, host, on_return=on_return)


def _static_truth(test, X, v, records=()):
    """truth of a test that mentions only the name X, when X is bound to the expression v: True / False, or None when it depends on a value"""
    class _U(Exception):
        pass

    def val(e):
        # abstract value: ('const', c) | ('object',) a non-None object of unknown truth | ('nonempty',) | ('empty',)
        if isinstance(e, ast.Constant):
            return ('const', e.value)
        if isinstance(e, (ast.Tuple, ast.List, ast.Set)):
            return ('nonempty',) if e.elts else ('empty',)
        if isinstance(e, ast.Dict):
            return ('nonempty',) if e.keys else ('empty',)
        if isinstance(e, ast.Call) and isinstance(e.func, ast.Name) and e.func.id in records:
            return ('nonempty',)        # an instance of a small record type of this module
        raise _U()

    def truth(a):
        if a[0] == 'const':
            return bool(a[1])
        if a[0] == 'nonempty':
            return True
        if a[0] == 'empty':
            return False
        raise _U()

    def ev(e):
        if isinstance(e, ast.Name) and e.id == X:
            return val(v)
        if isinstance(e, ast.Constant):
            return ('const', e.value)
        raise _U()

    def tv(e):
        if isinstance(e, ast.UnaryOp) and isinstance(e.op, ast.Not):
            return not tv(e.operand)
        if isinstance(e, ast.BoolOp):
            vs = [tv(x) for x in e.values]
            return all(vs) if isinstance(e.op, ast.And) else any(vs)
        if isinstance(e, ast.Compare) and len(e.ops) == 1:
            l, r = ev(e.left), ev(e.comparators[0])
            op = e.ops[0]
            if isinstance(op, (ast.Is, ast.IsNot)):
                if l[0] == 'const' and r[0] == 'const' and (l[1] is None or r[1] is None or isinstance(l[1], bool) or isinstance(r[1], bool)):
                    return (l[1] is r[1]) == isinstance(op, ast.Is)
                if (l[0] != 'const' and r == ('const', None)) or (r[0] != 'const' and l == ('const', None)):
                    return isinstance(op, ast.IsNot)
                raise _U()
            if isinstance(op, (ast.Eq, ast.NotEq)) and l[0] == 'const' and r[0] == 'const':
                return (l[1] == r[1]) == isinstance(op, ast.Eq)
            raise _U()
        return truth(ev(e))
    try:
        return tv(test)
    except _U:
        return None


def _loaded_after(host, name, st):
    """is the name read in the host below the statement (textual order; a helper that rebinds its own parameter must not disturb a later reader)"""
    end = getattr(st, 'end_lineno', None) or getattr(st, 'lineno', 0)
    inloop = any(isinstance(x, (ast.For, ast.While)) and x.lineno <= getattr(st, 'lineno', 0) <= (getattr(x, 'end_lineno', 0) or 0) for x in ast.walk(host))
    for x in ast.walk(host):
        if isinstance(x, ast.Name) and x.id == name and isinstance(x.ctx, ast.Load) and not hasattr(x, '_exp'):
            if x.lineno > end or (inloop and not (getattr(st, 'lineno', 0) <= x.lineno <= end)):
                return True
    return False


def _is_pure_path(e):
    """a constant, a name, or an attribute path of a name (no call, no subscript): reading it twice gives the same object as reading it once
    as far as the rules are concerned"""
    if isinstance(e, ast.Constant):
        return True
    while isinstance(e, ast.Attribute):
        e = e.value
    return isinstance(e, ast.Name)


class _Subst(ast.NodeTransformer):
    def __init__(self, mapping):
        self.mapping = mapping

    def visit_Name(self, node):
        if isinstance(node.ctx, ast.Load) and node.id in self.mapping:
            import copy
            return ast.copy_location(copy.deepcopy(self.mapping[node.id]), node)
        return node

    def visit_FunctionDef(self, node):
        return node
    visit_AsyncFunctionDef = visit_Lambda = visit_FunctionDef


def _unstage_fields(fn):
    """`tmp = <value>` ... uses of tmp ... `self.field = tmp` (tmp bound once, the store is the last mention of tmp, all in one statement list):
    the field is given the value at once and the uses go through the field -- the data flow is the same, and it is the shape of a constructor
    that does not stage its state"""
    if not fn.args.args:
        return
    recv = fn.args.args[0].arg
    stores = _stores(fn)
    body = fn.body
    for i, st in enumerate(body):
        if isinstance(st, ast.Assign) and len(st.targets) == 1 and isinstance(st.targets[0], ast.Attribute) and isinstance(st.targets[0].value, ast.Name) and \
                st.targets[0].value.id == recv and isinstance(st.value, ast.Name) and stores.get(st.value.id) == 1:
            tmp, field = st.value.id, st.targets[0].attr
            first = next((j for j, s0 in enumerate(body[:i]) if isinstance(s0, ast.Assign) and len(s0.targets) == 1 and isinstance(s0.targets[0], ast.Name) and s0.targets[0].id == tmp), None)
            if first is None:
                continue
            if any(isinstance(x, ast.Name) and x.id == tmp for s1 in body[i + 1:] for x in ast.walk(s1)):
                continue
            # nothing in between may look at the object (a method call or subscript on it could read the field while it still holds the OLD value)
            if any(isinstance(x, ast.Name) and x.id == recv for s1 in body[first:i] for x in ast.walk(s1)):
                continue
            body[first].targets = [ast.copy_location(ast.Attribute(value=ast.Name(id=recv, ctx=ast.Load()), attr=field, ctx=ast.Store()), body[first].targets[0])]

            class _T(ast.NodeTransformer):
                def visit_Name(self, node):
                    if node.id == tmp and isinstance(node.ctx, ast.Load):
                        return ast.copy_location(ast.Attribute(value=ast.Name(id=recv, ctx=ast.Load()), attr=field, ctx=ast.Load()), node)
                    return node
            for j in range(first + 1, i):
                body[j] = _T().visit(body[j])
            del body[i]
            ast.fix_missing_locations(fn)
            return _unstage_fields(fn)


_PURE_CALLS = {'len', 'isinstance', 'bool', 'getattr', 'hasattr', 'callable'}


def _is_pure_condition(e):
    for x in ast.walk(e):
        if isinstance(x, ast.Call):
            if not (isinstance(x.func, ast.Name) and x.func.id in _PURE_CALLS):
                return False
        elif not isinstance(x, (ast.BoolOp, ast.UnaryOp, ast.Compare, ast.Name, ast.Attribute, ast.Subscript, ast.Constant, ast.Tuple, ast.Set, ast.List, ast.Load,
                                ast.And, ast.Or, ast.Not, ast.cmpop, ast.Index if hasattr(ast, 'Index') else ast.Load, ast.USub)):
            return False
    return True


def _forward_named_conditions(fn):
    """`flag = <condition without side effects>` directly followed by an `if` that tests flag: the test mentions the condition itself (the
    assignment stays for other readers) -- `if a or b:` and `c = a or b; if c:` are the same decision"""
    import copy
    stores = _stores(fn)
    for x in ast.walk(fn):
        for fld in ('body', 'orelse', 'finalbody'):
            lst = getattr(x, fld, None)
            if not isinstance(lst, list):
                continue
            for i in range(len(lst) - 1):
                a, b = lst[i], lst[i + 1]
                if isinstance(a, ast.Assign) and len(a.targets) == 1 and isinstance(a.targets[0], ast.Name) and stores.get(a.targets[0].id) == 1 and isinstance(b, ast.If) and \
                        isinstance(a.value, (ast.BoolOp, ast.Compare, ast.UnaryOp)) and _is_pure_condition(a.value) and \
                        any(isinstance(y, ast.Name) and y.id == a.targets[0].id for y in ast.walk(b.test)):
                    b.test = _Subst({a.targets[0].id: a.value}).visit(copy.deepcopy(b.test))
                    ast.fix_missing_locations(b)


def _loop_over_generator(fn):
    """`for x in (E for i in IT): BODY` -- the generator written in the loop header or kept in a local that is made just before the loop and used
    nowhere else -- is `for i in IT: x = E; BODY`: a generator expression is evaluated in step with the loop that consumes it"""
    names = {}
    for y in ast.walk(fn):
        if isinstance(y, ast.Name):
            names[y.id] = names.get(y.id, 0) + 1
        elif isinstance(y, ast.arg):
            names[y.arg] = names.get(y.arg, 0) + 1
    for x in ast.walk(fn):
        for fld in ('body', 'orelse', 'finalbody'):
            lst = getattr(x, fld, None)
            if not isinstance(lst, list):
                continue
            for b, st in enumerate(lst):
                if not isinstance(st, ast.For) or st.orelse:
                    continue
                gen, a = None, None
                if isinstance(st.iter, ast.GeneratorExp):
                    gen = st.iter
                elif isinstance(st.iter, ast.Name) and names.get(st.iter.id) == 2:
                    for a_ in range(b - 1, -1, -1):
                        p_ = lst[a_]
                        if isinstance(p_, ast.Assign) and len(p_.targets) == 1 and isinstance(p_.targets[0], ast.Name) and p_.targets[0].id == st.iter.id and isinstance(p_.value, ast.GeneratorExp):
                            gen, a = p_.value, a_
                            break
                        if not (isinstance(p_, ast.Assign) and all(isinstance(t, ast.Name) for t in p_.targets) and isinstance(p_.value, ast.Constant)):
                            break
                if gen is None or len(gen.generators) != 1 or gen.generators[0].ifs or gen.generators[0].is_async:
                    continue
                comp = gen.generators[0]
                inner = {y.id for y in ast.walk(comp.target) if isinstance(y, ast.Name)}
                used_in_gen = {}
                for y in ast.walk(gen):
                    if isinstance(y, ast.Name):
                        used_in_gen[y.id] = used_in_gen.get(y.id, 0) + 1
                # the generator's own variables become variables of the function: they must be new to it
                if any(names.get(v, 0) != used_in_gen.get(v, 0) for v in inner):
                    continue
                if a is not None:
                    between = {t.id for p_ in lst[a + 1:b] for t in p_.targets}
                    if between & set(used_in_gen):
                        continue
                bind = ast.copy_location(ast.Assign(targets=[st.target], value=gen.elt, type_comment=None), st)
                st.target = comp.target
                st.iter = comp.iter
                st.body = [bind] + st.body
                ast.fix_missing_locations(st)
                if a is not None:
                    del lst[a]
                return _loop_over_generator(fn)


def _explicit_star_kwargs(fn):
    """`f(a, **{'k': v, 'l': w})` -- the dictionary written in the call, or kept in a local that is bound once to such a literal of plain values
    and read nowhere else -- is `f(a, k=v, l=w)`"""
    counts = {}
    for y in ast.walk(fn):
        if isinstance(y, ast.Name):
            counts[y.id] = counts.get(y.id, 0) + 1

    def literal(d):
        return isinstance(d, ast.Dict) and d.keys and all(isinstance(k, ast.Constant) and isinstance(k.value, str) and k.value.isidentifier() for k in d.keys)
    binds = {}
    for y in ast.walk(fn):
        if isinstance(y, ast.Assign) and len(y.targets) == 1 and isinstance(y.targets[0], ast.Name) and literal(y.value) and counts.get(y.targets[0].id) == 2 and \
                all(_is_pure_path(v) or isinstance(v, ast.Constant) for v in y.value.values):
            binds[y.targets[0].id] = y
    used = set()
    for c in ast.walk(fn):
        if not isinstance(c, ast.Call):
            continue
        new_kw = []
        for k in c.keywords:
            d = None
            if k.arg is None and literal(k.value):
                d = k.value
            elif k.arg is None and isinstance(k.value, ast.Name) and k.value.id in binds:
                d = binds[k.value.id].value
                used.add(k.value.id)
            if d is not None and not ({kk.value for kk in d.keys} & {x.arg for x in c.keywords if x.arg}):
                new_kw += [ast.copy_location(ast.keyword(arg=kk.value, value=v), k) for kk, v in zip(d.keys, d.values)]
            else:
                new_kw.append(k)
        c.keywords = new_kw
    if used:
        for x in ast.walk(fn):
            for fld in ('body', 'orelse', 'finalbody'):
                lst = getattr(x, fld, None)
                if isinstance(lst, list):
                    lst[:] = [st for st in lst if not (isinstance(st, ast.Assign) and len(st.targets) == 1 and isinstance(st.targets[0], ast.Name) and st.targets[0].id in used and binds.get(st.targets[0].id) is st)] or [ast.Pass()]
        ast.fix_missing_locations(fn)


def _fuse_filtering_generators(fn):
    """`g = (x for x in IT if C)` -- a generator that only filters, made just before its single use -- consumed by a comprehension
    `[F(y) for y in g]`: the comprehension runs over IT itself with the filter as its own condition"""
    import copy
    names = {}
    for y in ast.walk(fn):
        if isinstance(y, ast.Name):
            names[y.id] = names.get(y.id, 0) + 1
    for x in ast.walk(fn):
        for fld in ('body', 'orelse', 'finalbody'):
            lst = getattr(x, fld, None)
            if not isinstance(lst, list):
                continue
            for a, st in enumerate(lst[:-1]):
                if not (isinstance(st, ast.Assign) and len(st.targets) == 1 and isinstance(st.targets[0], ast.Name) and isinstance(st.value, ast.GeneratorExp) and names.get(st.targets[0].id) == 2):
                    continue
                gen = st.value
                if len(gen.generators) != 1 or gen.generators[0].is_async or not isinstance(gen.generators[0].target, ast.Name) or \
                        not (isinstance(gen.elt, ast.Name) and gen.elt.id == gen.generators[0].target.id):
                    continue
                # the single use: a comprehension of a following statement, with only plain constant bindings or bindings that do not touch the
                # generator's names in between
                gname = st.targets[0].id
                gen_names = {y.id for y in ast.walk(gen) if isinstance(y, ast.Name)}
                user = None
                for b in range(a + 1, len(lst)):
                    nxt = lst[b]
                    comps = [c for c in ast.walk(nxt) if isinstance(c, (ast.ListComp, ast.GeneratorExp, ast.SetComp)) and len(c.generators) == 1 and
                             isinstance(c.generators[0].iter, ast.Name) and c.generators[0].iter.id == gname and isinstance(c.generators[0].target, ast.Name)]
                    if comps:
                        if isinstance(nxt, (ast.Assign, ast.Expr, ast.Return, ast.AugAssign)):
                            user = comps[0]
                        break
                    if not (isinstance(nxt, ast.Assign) and all(isinstance(t, ast.Name) and t.id not in gen_names for t in nxt.targets) and
                            not any(isinstance(y, ast.Call) for y in ast.walk(nxt.value) if not (isinstance(y, ast.Call) and isinstance(y.func, ast.Attribute) and y.func.attr in ('format', 'join')))):
                        break
                if user is None:
                    continue
                inner, outer = gen.generators[0], user.generators[0]
                ren = _Rename({inner.target.id: outer.target.id})
                outer.iter = inner.iter
                outer.ifs = [ren.visit(copy.deepcopy(c)) for c in inner.ifs] + outer.ifs
                ast.fix_missing_locations(user)
                del lst[a]
                return _fuse_filtering_generators(fn)


def _unroll_constant_loops(fn, new_callables=()):
    """`for v in (c1, c2, c3): BODY` over a short literal tuple or list of constants / names (or of equally long tuples of them, with a tuple
    target) is BODY three times with the element written in place of the loop variable; only when BODY neither breaks out of nor continues
    this loop and does not rebind the variable"""
    import copy

    def getter(e):
        return isinstance(e, ast.Call) and ((isinstance(e.func, ast.Attribute) and e.func.attr == 'attrgetter' and isinstance(e.func.value, ast.Name) and e.func.value.id == 'operator') or
                                            (isinstance(e.func, ast.Name) and e.func.id == 'attrgetter')) and len(e.args) == 1 and not e.keywords and \
            isinstance(e.args[0], ast.Constant) and isinstance(e.args[0].value, str) and e.args[0].value.isidentifier()

    def simple(e, depth=0):
        return isinstance(e, (ast.Constant, ast.Name)) or (isinstance(e, ast.Attribute) and simple(e.value, depth)) or getter(e) or \
            (isinstance(e, ast.Tuple) and depth < 2 and all(simple(y, depth + 1) for y in e.elts))

    class _Getters(ast.NodeTransformer):
        # operator.attrgetter('a')(x) is x.a
        def visit_Call(self, node):
            self.generic_visit(node)
            if getter(node.func) and len(node.args) == 1 and not node.keywords and not isinstance(node.args[0], ast.Starred):
                return ast.copy_location(ast.Attribute(value=node.args[0], attr=node.func.args[0].value, ctx=ast.Load()), node)
            return node

    def leaves_loop(stmts):
        for st in stmts:
            if isinstance(st, (ast.Break, ast.Continue)):
                return True
            if isinstance(st, (ast.For, ast.While, ast.FunctionDef, ast.AsyncFunctionDef, ast.ClassDef)):
                if isinstance(st, (ast.For, ast.While)) and leaves_loop(st.orelse):
                    return True
                continue
            for fld in ('body', 'orelse', 'finalbody'):
                if leaves_loop(getattr(st, fld, []) or []):
                    return True
            for h in getattr(st, 'handlers', []):
                if leaves_loop(h.body):
                    return True
        return False
    for x in ast.walk(fn):
        for fld in ('body', 'orelse', 'finalbody'):
            lst = getattr(x, fld, None)
            if not isinstance(lst, list):
                continue
            for b, st in enumerate(lst):
                if not isinstance(st, ast.For) or st.orelse:
                    continue
                table = st.iter
                if isinstance(table, ast.Name):
                    # a table that is bound once in this function (a hoisted module-level table is bound at the top by the loader)
                    defs = [y for y in ast.walk(fn) if isinstance(y, ast.Assign) and any(isinstance(t, ast.Name) and t.id == table.id for t in y.targets)]
                    n_stores = sum(1 for y in ast.walk(fn) if isinstance(y, ast.Name) and y.id == table.id and isinstance(y.ctx, (ast.Store, ast.Del)))
                    if len(defs) == 1 and n_stores == 1 and len(defs[0].targets) == 1 and table.id not in {a.arg for a in fn.args.posonlyargs + fn.args.args + fn.args.kwonlyargs}:
                        table = defs[0].value
                if not isinstance(table, (ast.Tuple, ast.List)) or not (1 <= len(table.elts) <= 6):
                    continue
                elts = table.elts
                # `for case in TABLE: if COND(case): ...; break` -- the first case that matches -- is an if / elif chain over the cases
                first_match = len(st.body) == 1 and isinstance(st.body[0], ast.If) and not st.body[0].orelse and st.body[0].body and isinstance(st.body[0].body[-1], ast.Break) and \
                    not leaves_loop(st.body[0].body[:-1])
                if not all(simple(e) for e in elts) or (leaves_loop(st.body) and not first_match):
                    continue
                # only tables of CASES are written out -- rows that name a function that is new in this module, or a field through an attrgetter --;
                # a loop over plain values (the two quote characters, a list of tags) is a loop the rules know as a loop
                if not any((isinstance(y, ast.Name) and y.id in new_callables) or getter(y) for e in elts for y in ast.walk(e)):
                    continue
                if any(isinstance(y, (ast.For, ast.While, ast.ListComp, ast.GeneratorExp, ast.SetComp, ast.DictComp)) for s_ in st.body for y in ast.walk(s_)):
                    continue            # an outer loop around another loop is an order of visits, not a table of cases
                if isinstance(st.target, ast.Name):
                    tnames = [st.target.id]
                    rows = [[e] for e in elts]
                elif isinstance(st.target, ast.Tuple) and all(isinstance(t, ast.Name) for t in st.target.elts) and all(isinstance(e, ast.Tuple) and len(e.elts) == len(st.target.elts) for e in elts):
                    tnames = [t.id for t in st.target.elts]
                    rows = [list(e.elts) for e in elts]
                else:
                    continue
                stored = {y.id for s_ in st.body for y in ast.walk(s_) if isinstance(y, ast.Name) and isinstance(y.ctx, (ast.Store, ast.Del))}
                nested_use = any(isinstance(y, (ast.Lambda, ast.FunctionDef)) for s_ in st.body for y in ast.walk(s_))
                elt_names = {y.id for e in elts for y in ast.walk(e) if isinstance(y, ast.Name)}
                if stored & (set(tnames) | elt_names) or nested_use:
                    continue
                out = []
                if first_match:
                    if any(isinstance(y, ast.Name) and isinstance(y.ctx, ast.Load) and y.id in tnames and not any(y is z for s_ in st.body for z in ast.walk(s_)) for y in ast.walk(fn)):
                        continue        # the loop variable is read after the loop
                    chain = None
                    for row in reversed(rows):
                        m = dict(zip(tnames, row))
                        inner = st.body[0]
                        node = ast.copy_location(ast.If(test=_Getters().visit(_Subst(m).visit(copy.deepcopy(inner.test))),
                                                        body=[_Getters().visit(_Subst(m).visit(copy.deepcopy(b_))) for b_ in inner.body[:-1]] or [ast.copy_location(ast.Pass(), inner)],
                                                        orelse=(chain if isinstance(chain, list) else [chain]) if chain is not None else []), inner)
                        t_ = node.test
                        always = isinstance(t_, ast.Call) and isinstance(t_.func, ast.Name) and t_.func.id == 'isinstance' and len(t_.args) == 2 and \
                            ((isinstance(t_.args[1], ast.Name) and t_.args[1].id == 'object') or
                             (isinstance(t_.args[1], ast.Tuple) and any(isinstance(y, ast.Name) and y.id == 'object' for y in t_.args[1].elts)))
                        if always and _is_pure_path(t_.args[0]):
                            # everything is an instance of object: this case is the `else` of the chain (later cases are never reached)
                            chain = node.body
                        else:
                            chain = node
                    if isinstance(chain, list):
                        chain = ast.copy_location(ast.If(test=ast.copy_location(ast.Constant(value=True), st), body=chain, orelse=[]), st)
                    ast.fix_missing_locations(chain)
                    lst[b:b + 1] = [chain]
                    if isinstance(st.iter, ast.Name) and table is not st.iter and not any(isinstance(y, ast.Name) and y.id == st.iter.id and isinstance(y.ctx, ast.Load) for y in ast.walk(fn)):
                        for z in ast.walk(fn):
                            for fld2 in ('body', 'orelse', 'finalbody'):
                                l2 = getattr(z, fld2, None)
                                if isinstance(l2, list) and defs[0] in l2:
                                    l2[l2.index(defs[0])] = ast.copy_location(ast.Pass(), defs[0])
                    return _unroll_constant_loops(fn, new_callables)
                inside = {id(y) for s_ in st.body for y in ast.walk(s_)}
                used_outside = {y.id for y in ast.walk(fn) if isinstance(y, ast.Name) and isinstance(y.ctx, ast.Load) and y.id in tnames and id(y) not in inside}
                for row in rows:
                    m = dict(zip(tnames, row))
                    for t, v in m.items():
                        if t not in used_outside:
                            continue        # the loop variable is read nowhere but in the body, where its value is written out
                        out.append(ast.copy_location(ast.Assign(targets=[ast.Name(id=t, ctx=ast.Store())], value=copy.deepcopy(v), type_comment=None), st))
                    for s_ in st.body:
                        out.append(_Getters().visit(_Subst(m).visit(copy.deepcopy(s_))))
                for o in out:
                    ast.fix_missing_locations(o)
                lst[b:b + 1] = out or [ast.copy_location(ast.Pass(), st)]
                if isinstance(st.iter, ast.Name) and table is not st.iter and not any(isinstance(y, ast.Name) and y.id == st.iter.id and isinstance(y.ctx, ast.Load) for y in ast.walk(fn)):
                    # the table's binding in this function has no reader left
                    for z in ast.walk(fn):
                        for fld2 in ('body', 'orelse', 'finalbody'):
                            l2 = getattr(z, fld2, None)
                            if isinstance(l2, list) and defs[0] in l2:
                                l2[l2.index(defs[0])] = ast.copy_location(ast.Pass(), defs[0])
                return _unroll_constant_loops(fn, new_callables)


def module_constants(tree):
    """names bound at module level by a plain assignment"""
    return sorted({t.id for st in _toplevel(tree.body) if isinstance(st, ast.Assign) for t in st.targets if isinstance(t, ast.Name)})


def _is_literal_table(e):
    if isinstance(e, ast.Constant):
        return True
    if isinstance(e, (ast.Tuple, ast.List, ast.Set)):
        return all(_is_literal_table(x) for x in e.elts)
    if isinstance(e, ast.Dict):
        return all(k is not None and _is_literal_table(k) and _is_literal_table(v) for k, v in zip(e.keys, e.values))
    if isinstance(e, ast.Name):
        return True
    if isinstance(e, ast.Attribute):
        return _is_literal_table(e.value)
    if isinstance(e, ast.BinOp) and isinstance(e.op, ast.Add):
        return _is_literal_table(e.left) and _is_literal_table(e.right)
    if isinstance(e, ast.Call) and not e.keywords and len(e.args) == 1 and isinstance(e.args[0], ast.Constant) and \
            ((isinstance(e.func, ast.Attribute) and e.func.attr == 'attrgetter') or (isinstance(e.func, ast.Name) and e.func.id == 'attrgetter')):
        return True                 # operator.attrgetter('name'): a field name in the dress of a callable
    return False


def _localise_new_constants(tree, known):
    """a table of literals that was hoisted to module level (a name the known tree does not bind there): every function that reads it gets the
    binding as its first statement, so that rules which follow a local to its definition find it"""
    import copy
    new = {}
    for st in _toplevel(tree.body):
        if isinstance(st, ast.Assign) and len(st.targets) == 1 and isinstance(st.targets[0], ast.Name) and st.targets[0].id not in known and \
                isinstance(st.value, (ast.Tuple, ast.List, ast.Set, ast.Dict)) and _is_literal_table(st.value):
            new[st.targets[0].id] = st
    if not new:
        return
    stored_elsewhere = set()
    for x in ast.walk(tree):
        if isinstance(x, ast.Name) and isinstance(x.ctx, (ast.Store, ast.Del)) and x.id in new and getattr(x, '_parent_assign', None) is None:
            pass
    counts = {}
    for x in ast.walk(tree):
        if isinstance(x, ast.Name) and isinstance(x.ctx, (ast.Store, ast.Del)) and x.id in new:
            counts[x.id] = counts.get(x.id, 0) + 1
        elif isinstance(x, ast.Global):
            for n_ in x.names:
                counts[n_] = counts.get(n_, 0) + 2
    new = {k: v for k, v in new.items() if counts.get(k, 0) == 1}
    if not new:
        return

    def funcs(body):
        for st in body:
            if isinstance(st, (ast.FunctionDef, ast.AsyncFunctionDef)):
                yield st
            elif isinstance(st, ast.ClassDef):
                yield from funcs(st.body)
            elif isinstance(st, (ast.If, ast.Try)):
                for fld in ('body', 'orelse', 'finalbody'):
                    yield from funcs(getattr(st, fld, []) or [])
    for fn in funcs(tree.body):
        used = {x.id for x in ast.walk(fn) if isinstance(x, ast.Name) and isinstance(x.ctx, ast.Load) and x.id in new}
        params = {a.arg for a in fn.args.posonlyargs + fn.args.args + fn.args.kwonlyargs}
        k = 1 if fn.body and isinstance(fn.body[0], ast.Expr) and isinstance(fn.body[0].value, ast.Constant) and isinstance(fn.body[0].value.value, str) else 0
        for nm in sorted(used - params):
            asg = ast.Assign(targets=[ast.Name(id=nm, ctx=ast.Store())], value=copy.deepcopy(new[nm].value), type_comment=None)
            ast.copy_location(asg, fn.body[k] if len(fn.body) > k else fn)
            asg._localised_constant = True
            fn.body.insert(k, asg)
    ast.fix_missing_locations(tree)


def _record_types(tree):
    """module-level record types whose fields are known: `T = namedtuple('T', [...])` and classes whose __init__ stores each parameter in the
    attribute of the same name -> {name: [field, ...]} in constructor order"""
    out = {}
    for st in tree.body:
        if isinstance(st, ast.Assign) and len(st.targets) == 1 and isinstance(st.targets[0], ast.Name) and isinstance(st.value, ast.Call):
            f = st.value.func
            if (isinstance(f, ast.Name) and f.id == 'namedtuple') or (isinstance(f, ast.Attribute) and f.attr == 'namedtuple'):
                if len(st.value.args) >= 2:
                    spec = st.value.args[1]
                    if isinstance(spec, (ast.List, ast.Tuple)) and all(isinstance(e, ast.Constant) and isinstance(e.value, str) for e in spec.elts):
                        out[st.targets[0].id] = [e.value for e in spec.elts]
                    elif isinstance(spec, ast.Constant) and isinstance(spec.value, str):
                        out[st.targets[0].id] = spec.value.replace(',', ' ').split()
        elif isinstance(st, ast.ClassDef):
            init = [m for m in st.body if isinstance(m, ast.FunctionDef) and m.name == '__init__']
            if len(init) == 1 and not init[0].args.vararg and not init[0].args.kwarg and not init[0].args.kwonlyargs:
                ps = [a.arg for a in init[0].args.args[1:]]
                recv = init[0].args.args[0].arg if init[0].args.args else None
                body = [b for b in init[0].body if not (isinstance(b, ast.Expr) and isinstance(b.value, ast.Constant))]
                ok = len(body) == len(ps) and all(
                    isinstance(b, ast.Assign) and len(b.targets) == 1 and isinstance(b.targets[0], ast.Attribute) and isinstance(b.targets[0].value, ast.Name) and
                    b.targets[0].value.id == recv and isinstance(b.value, ast.Name) and b.value.id == b.targets[0].attr and b.value.id in ps for b in body)
                if ok and ps:
                    out[st.name] = ps
    return out


def _stores(fn):
    """name -> number of binding sites in the function (parameters count as one)"""
    n = {}
    for a in fn.args.posonlyargs + fn.args.args + fn.args.kwonlyargs:
        n[a.arg] = n.get(a.arg, 0) + 1
    for x in ast.walk(fn):
        if isinstance(x, ast.Name) and isinstance(x.ctx, (ast.Store, ast.Del)):
            n[x.id] = n.get(x.id, 0) + 1
        elif isinstance(x, ast.ExceptHandler) and x.name:
            n[x.name] = n.get(x.name, 0) + 2
        elif isinstance(x, (ast.FunctionDef, ast.AsyncFunctionDef, ast.Lambda)) and x is not fn:
            # names rebound in nested scopes are left alone altogether
            for y in ast.walk(x):
                if isinstance(y, ast.Name):
                    n[y.id] = n.get(y.id, 0) + 2
    return n


def _scalar_replacement(fn, records):
    """values that travel together in a tuple or a small record built from plain names in this function: an unpacking of it, or a read of one of
    its fields, is the name it was built from (only for aggregates and names bound exactly once)"""
    stores = _stores(fn)
    # a binding that is directly followed, in its own statement list, by statements that always leave the function does not reach anything else
    for x in ast.walk(fn):
        for fld in ('body', 'orelse', 'finalbody'):
            lst = getattr(x, fld, None)
            if isinstance(lst, list):
                for i, st in enumerate(lst):
                    if isinstance(st, ast.Assign) and len(st.targets) == 1 and isinstance(st.targets[0], ast.Name) and isinstance(st.value, ast.Constant) and \
                            any(isinstance(y, (ast.Return, ast.Raise)) for y in lst[i + 1:]):
                        stores[st.targets[0].id] = stores.get(st.targets[0].id, 0) - 1
    # an unpacking that directly follows the (only live) packing: element by element, whatever else happens to the names elsewhere
    def last_effective(st):
        while isinstance(st, ast.If) and getattr(st, '_inlined_block_id', None) is not None:
            inner = [y for y in st.body if not isinstance(y, ast.Pass)]
            if not inner:
                return None
            st = inner[-1]
        return st
    for x in ast.walk(fn):
        for fld in ('body', 'orelse', 'finalbody'):
            lst = getattr(x, fld, None)
            if not isinstance(lst, list):
                continue
            for i in range(1, len(lst)):
                st = lst[i]
                if isinstance(st, ast.Assign) and len(st.targets) == 1 and isinstance(st.targets[0], ast.Tuple) and isinstance(st.value, ast.Name) and stores.get(st.value.id) == 1:
                    prev = last_effective(lst[i - 1])
                    if isinstance(prev, ast.Assign) and len(prev.targets) == 1 and isinstance(prev.targets[0], ast.Name) and prev.targets[0].id == st.value.id and \
                            isinstance(prev.value, ast.Tuple) and len(prev.value.elts) == len(st.targets[0].elts) and all(isinstance(e, ast.Name) for e in prev.value.elts + st.targets[0].elts):
                        tn = [e.id for e in st.targets[0].elts]
                        vn = [e.id for e in prev.value.elts]
                        pairs = [(t, v) for t, v in zip(tn, vn) if t != v]
                        if not ({t for t, _v in pairs} & {v for _t, v in pairs}):
                            new = [ast.copy_location(ast.Assign(targets=[ast.Name(id=t, ctx=ast.Store())], value=ast.Name(id=v, ctx=ast.Load()), type_comment=None), st) for t, v in pairs]
                            lst[i:i + 1] = new or [ast.copy_location(ast.Pass(), st)]
                            ast.fix_missing_locations(fn)
                            return _scalar_replacement(fn, records)
    # names that live entirely inside one expanded block are frozen once the block has ended
    private = {}
    for b in ast.walk(fn):
        if isinstance(b, ast.If) and getattr(b, '_inlined_block_id', None) is not None:
            inside = {}
            for y in ast.walk(b):
                if isinstance(y, ast.Name) and isinstance(y.ctx, (ast.Store, ast.Del)):
                    inside[y.id] = inside.get(y.id, 0) + 1
            last = last_effective(b)
            if isinstance(last, ast.Assign):
                private[id(last)] = {nm for nm, k in inside.items() if stores.get(nm) == k}

    by_exp = {}
    for y in ast.walk(fn):
        if isinstance(y, ast.Name) and isinstance(y.ctx, (ast.Store, ast.Del)):
            by_exp.setdefault(y.id, set()).add(getattr(y, '_exp', None))

    def frozen(e, at):
        if not isinstance(e, ast.Name):
            return False
        if stores.get(e.id, 0) <= 1 or e.id in private.get(id(at), ()):
            return True
        # every binding of the name was produced by the expansion whose result this aggregate is
        exp = getattr(at, '_exp', None)
        return exp is not None and by_exp.get(e.id) == {exp}
    aggs = {}
    for x in ast.walk(fn):
        if isinstance(x, ast.Assign) and len(x.targets) == 1 and isinstance(x.targets[0], ast.Name) and stores.get(x.targets[0].id) == 1:
            v = x.value
            if isinstance(v, ast.Tuple) and v.elts and all(frozen(e, x) for e in v.elts):
                aggs[x.targets[0].id] = ('tuple', [e.id for e in v.elts])
            elif isinstance(v, ast.Call) and isinstance(v.func, ast.Name) and v.func.id in records and not any(isinstance(a, ast.Starred) for a in v.args) and \
                    all(k.arg for k in v.keywords):
                fields = records[v.func.id]
                vals = {}
                for f_, a in zip(fields, v.args):
                    vals[f_] = a
                for k in v.keywords:
                    vals[k.arg] = k.value
                if set(vals) == set(fields) and all(frozen(a, x) for a in vals.values()):
                    aggs[x.targets[0].id] = ('record', {f_: a.id for f_, a in vals.items()}, [vals[f_].id for f_ in fields])
    _field_variables(fn, records, aggs)
    if not aggs:
        return

    class _T(ast.NodeTransformer):
        def visit_FunctionDef(self, node):
            if node is fn:
                self.generic_visit(node)
            return node
        visit_AsyncFunctionDef = visit_FunctionDef

        def visit_Lambda(self, node):
            return node

        def visit_Attribute(self, node):
            self.generic_visit(node)
            if isinstance(node.ctx, ast.Load) and isinstance(node.value, ast.Name) and node.value.id in aggs and aggs[node.value.id][0] == 'record' and node.attr in aggs[node.value.id][1]:
                return ast.copy_location(ast.Name(id=aggs[node.value.id][1][node.attr], ctx=ast.Load()), node)
            return node

        def visit_Subscript(self, node):
            self.generic_visit(node)
            if isinstance(node.ctx, ast.Load) and isinstance(node.value, ast.Name) and node.value.id in aggs and isinstance(node.slice, ast.Constant) and isinstance(node.slice.value, int):
                a = aggs[node.value.id]
                names = a[1] if a[0] == 'tuple' else a[2]
                if 0 <= node.slice.value < len(names):
                    return ast.copy_location(ast.Name(id=names[node.slice.value], ctx=ast.Load()), node)
            return node

        def visit_Assign(self, node):
            self.generic_visit(node)
            if len(node.targets) == 1 and isinstance(node.targets[0], ast.Tuple) and isinstance(node.value, ast.Name) and node.value.id in aggs:
                a = aggs[node.value.id]
                names = a[1] if a[0] == 'tuple' else a[2]
                t = node.targets[0]
                if len(t.elts) == len(names) and all(isinstance(e, ast.Name) for e in t.elts):
                    res = [ast.copy_location(ast.Assign(targets=[e], value=ast.copy_location(ast.Name(id=nm, ctx=ast.Load()), node), type_comment=None), node)
                           for e, nm in zip(t.elts, names) if e.id != nm]
                    for r in res:
                        if hasattr(node, '_inlined_from'):
                            r._inlined_from = node._inlined_from
                    return res or ast.copy_location(ast.Pass(), node)
            return node
    _T().visit(fn)
    # an aggregate nobody looks at any more was only the carrier: its construction goes too (a rule that asks who else holds one of the values
    # would otherwise see the carrier as a second holder)
    still_read = {x.id for x in ast.walk(fn) if isinstance(x, ast.Name) and isinstance(x.ctx, ast.Load)}
    dead = {nm for nm in aggs if nm not in still_read}
    if dead:
        class _D(ast.NodeTransformer):
            def visit_Assign(self, node):
                if len(node.targets) == 1 and isinstance(node.targets[0], ast.Name) and node.targets[0].id in dead:
                    return ast.copy_location(ast.Pass(), node)
                return node

            def visit_FunctionDef(self, node):
                if node is fn:
                    self.generic_visit(node)
                return node
        _D().visit(fn)
    ast.fix_missing_locations(fn)


def _field_variables(fn, records, done):
    """a local that is bound several times, every time to a record of ONE type built from names and constants: each field gets a variable of its
    own (`x = R(a, 1)` is followed by `x__f = a; x__g = 1`) and a read `x.f` reads that variable"""
    import copy
    by_name = {}
    bad = set()
    for x in ast.walk(fn):
        if isinstance(x, ast.Assign):
            for t in x.targets:
                for y in ast.walk(t):
                    if isinstance(y, ast.Name):
                        v = x.value
                        ok = t is y and len(x.targets) == 1 and isinstance(v, ast.Call) and isinstance(v.func, ast.Name) and v.func.id in records and \
                            not any(isinstance(a, ast.Starred) for a in v.args) and all(k.arg for k in v.keywords)
                        if ok:
                            fields = records[v.func.id]
                            vals = dict(zip(fields, v.args))
                            vals.update({k.arg: k.value for k in v.keywords})
                            ok = set(vals) == set(fields) and all(isinstance(a, (ast.Name, ast.Constant)) for a in vals.values())
                        if ok:
                            by_name.setdefault(y.id, []).append((x, v.func.id, vals))
                        else:
                            bad.add(y.id)
        elif isinstance(x, (ast.For, ast.AugAssign, ast.With, ast.ExceptHandler, ast.NamedExpr, ast.comprehension)):
            tg = getattr(x, 'target', None)
            for y in (ast.walk(tg) if isinstance(tg, ast.AST) else []):
                if isinstance(y, ast.Name):
                    bad.add(y.id)
    params = {a.arg for a in fn.args.posonlyargs + fn.args.args + fn.args.kwonlyargs}
    todo = {nm: v for nm, v in by_name.items() if nm not in bad and nm not in params and nm not in done and len(v) >= 2 and len({t for (_s, t, _v) in v}) == 1}
    if not todo:
        return
    for nm, stores_ in todo.items():
        for (st, _t, vals) in stores_:
            st._field_assigns = [ast.copy_location(ast.Assign(targets=[ast.Name(id='%s__%s' % (nm, f_), ctx=ast.Store())], value=copy.deepcopy(a), type_comment=None), st) for f_, a in vals.items()]

    class _A(ast.NodeTransformer):
        def visit_Attribute(self, node):
            self.generic_visit(node)
            if isinstance(node.ctx, ast.Load) and isinstance(node.value, ast.Name) and node.value.id in todo and node.attr in todo[node.value.id][0][2]:
                return ast.copy_location(ast.Name(id='%s__%s' % (node.value.id, node.attr), ctx=ast.Load()), node)
            return node

        def visit_Lambda(self, node):
            return node

        def visit_FunctionDef(self, node):
            if node is fn:
                self.generic_visit(node)
            return node
    _A().visit(fn)
    for x in ast.walk(fn):
        for fld in ('body', 'orelse', 'finalbody'):
            lst = getattr(x, fld, None)
            if isinstance(lst, list):
                i = 0
                while i < len(lst):
                    extra = getattr(lst[i], '_field_assigns', None)
                    if extra:
                        lst[i]._field_assigns = None
                        lst[i + 1:i + 1] = extra
                        i += len(extra)
                    i += 1
    ast.fix_missing_locations(fn)


def _propagate_temporaries(fn):
    """a name introduced by the expander (`__...`) that is bound exactly once, to another name that is itself bound at most once, is that name"""
    stores = _stores(fn)
    copies = {}
    for x in ast.walk(fn):
        if isinstance(x, ast.Assign) and len(x.targets) == 1 and isinstance(x.targets[0], ast.Name) and x.targets[0].id.startswith('__') and \
                stores.get(x.targets[0].id) == 1 and isinstance(x.value, ast.Name) and stores.get(x.value.id, 0) <= 1 and x.value.id != x.targets[0].id:
            copies[x.targets[0].id] = x.value.id
    # the other direction: `name = __tmp` where both are bound exactly once: the temporary IS that variable (its earlier uses included)
    merged = {}
    for x in ast.walk(fn):
        if isinstance(x, ast.Assign) and len(x.targets) == 1 and isinstance(x.targets[0], ast.Name) and not x.targets[0].id.startswith('__') and \
                stores.get(x.targets[0].id) == 1 and isinstance(x.value, ast.Name) and x.value.id.startswith('__') and stores.get(x.value.id) == 1 and x.value.id not in merged:
            merged[x.value.id] = (x.targets[0].id, x)
    if merged:
        drop = {id(st) for (_n, st) in merged.values()}

        class _M(ast.NodeTransformer):
            def visit_Lambda(self, node):
                return node

            def visit_FunctionDef(self, node):
                if node is fn:
                    self.generic_visit(node)
                return node
            visit_AsyncFunctionDef = visit_FunctionDef

            def visit_Name(self, node):
                if node.id in merged:
                    return ast.copy_location(ast.Name(id=merged[node.id][0], ctx=node.ctx), node)
                return node

            def visit_Assign(self, node):
                if id(node) in drop:
                    return ast.copy_location(ast.Pass(), node)
                self.generic_visit(node)
                return node
        _M().visit(fn)
        ast.fix_missing_locations(fn)
        return _propagate_temporaries(fn)
    if not copies:
        return

    def root(nm, seen=()):
        while nm in copies and nm not in seen:
            seen += (nm,)
            nm = copies[nm]
        return nm

    class _T(ast.NodeTransformer):
        def visit_Lambda(self, node):
            return node

        def visit_FunctionDef(self, node):
            if node is fn:
                self.generic_visit(node)
            return node
        visit_AsyncFunctionDef = visit_FunctionDef

        def visit_Name(self, node):
            if isinstance(node.ctx, ast.Load) and node.id in copies:
                return ast.copy_location(ast.Name(id=root(node.id), ctx=ast.Load()), node)
            return node

        def visit_Assign(self, node):
            if len(node.targets) == 1 and isinstance(node.targets[0], ast.Name) and node.targets[0].id in copies:
                return ast.copy_location(ast.Pass(), node)
            self.generic_visit(node)
            return node
    _T().visit(fn)
    ast.fix_missing_locations(fn)


class Module:
    def __init__(self, name, relpath, src, reuse=None, tree=None, foreign=None):
        self.name = name
        self.relpath = relpath
        self.src = src
        if reuse is not None and reuse.src == src and tree is None:
            # unchanged file of a variant: share the (read-only) tree
            self.lines = reuse.lines
            self.tree = reuse.tree
            self.imports = {}
            self.funcs = {}
            self.classes = {}
            self.assigns = {}
            return
        self.lines = src.splitlines()
        raw = tree if tree is not None else ast.parse(src, filename=relpath)
        known_functions()
        kd = _KNOWN_EXTRA.get('digests', {}).get(relpath)
        if kd is not None:
            # functions that are not as they were when the tree was read: a field that is staged in a local gets its value directly
            changed_fns = [(q, node) for q, node in function_table(raw).items() if q not in kd or kd[q] != fn_digest(node)]
        else:
            changed_fns = []
        kc = _KNOWN_EXTRA.get('constants', {}).get(relpath)
        if kc is not None:
            _localise_new_constants(raw, set(kc))
        kfun = known_functions().get(relpath)
        new_callables = {st.name for st in _toplevel(raw.body) if isinstance(st, (ast.FunctionDef, ast.AsyncFunctionDef)) and kfun is not None and st.name not in kfun}
        for q, node in changed_fns:
            if '.' in q:
                _unstage_fields(node)
            _loop_over_generator(node)
            _unroll_constant_loops(node, new_callables)
        self.tree = ast.fix_missing_locations(_Desugar().visit(raw))
        known = known_functions().get(relpath)
        if known is not None and _InlineNewHelpers(self.tree, known, foreign=foreign, modname=name, is_pkg=relpath.endswith('__init__.py'), known_digests=kd, known_params=_KNOWN_EXTRA.get('params', {}).get(relpath), known_features=_KNOWN_EXTRA.get('features', {}).get(relpath), relpath=relpath).run():
            ast.fix_missing_locations(self.tree)
        if any(isinstance(n, ast.ClassDef) and any(n.name == c for (c, _m) in INLINE_HOSTS) for n in self.tree.body):
            _InlineMethods(self.tree).run()
            ast.fix_missing_locations(self.tree)
        self.imports = {}      # local name -> ('mod', dotted) | ('sym', dotted_module, symbol)
        self.funcs = {}        # top-level name -> Func
        self.classes = {}      # top-level name -> ClassInfo
        self.assigns = {}      # module level NAME -> value expr (last simple assignment)
        for n in ast.walk(self.tree):
            for c in ast.iter_child_nodes(n):
                c._parent = n
        self.tree._parent = None

    def __repr__(self):
        return '<Module %s>' % self.name


class Func:
    def __init__(self, qualname, module, node, cls=None, parent=None):
        self.qualname = qualname
        self.module = module
        self.node = node
        self.cls = cls
        self.parent = parent
        self.nested = {}

    @property
    def name(self):
        return self.node.name

    def loc(self, node=None):
        node = self.node if node is None else node
        return '%s:%d' % (self.module.relpath, getattr(node, 'lineno', 0))

    def __repr__(self):
        return '<Func %s>' % self.qualname


class ClassInfo:
    def __init__(self, qualname, module, node):
        self.qualname = qualname
        self.module = module
        self.node = node
        self.methods = {}     # name -> Func
        self.assigns = {}     # class level NAME -> value expr
        self.bases = list(node.bases)

    @property
    def name(self):
        return self.node.name

    def __repr__(self):
        return '<Class %s>' % self.qualname


def _quick_has_unknown_or_vanished(trees):
    """is there, in the given modules, a known function or field missing?  (cheap test that keeps the restoring pass away from ordinary trees)"""
    known_functions()
    digests, attrs = _KNOWN_EXTRA['digests'], _KNOWN_EXTRA['attrs']
    for rel, t in trees.items():
        if rel in digests:
            tab = function_table(t)
            if any(q not in tab for q in digests[rel]):
                return True
        if rel in attrs:
            now = attr_signatures(t)
            for cls, sig in attrs[rel].items():
                if cls in now and any(a not in now[cls] for a in sig):
                    return True
    return False


class _AliasDict(dict):
    """the nested functions of a function; `get` / `[]` also know the role names, iteration does not"""

    def __init__(self, base, extra):
        dict.__init__(self, base)
        self.extra = extra

    def get(self, k, d=None):
        if k in self:
            return dict.get(self, k)
        return self.extra.get(k, d)

    def __missing__(self, k):
        return self.extra[k]


def _calls_named(node, *names):
    return any(isinstance(x, ast.Call) and ((isinstance(x.func, ast.Name) and x.func.id in names) or (isinstance(x.func, ast.Attribute) and x.func.attr in names)) for x in ast.walk(node))


NESTED_ROLES = {
    'xdoctest.parser.DoctestParser._package_chunk.slice_example': lambda n: _calls_named(n, 'DoctestPart'),
    'xdoctest.utils.util_import._syspath_modname_to_modpath.check_dpath': lambda n: _calls_named(n, 'isfile') and any(isinstance(x, ast.For) for x in ast.walk(n)),
    'xdoctest.core.parse_freeform_docstr_examples.doctest_from_parts': lambda n: _calls_named(n, 'DocTest'),
}


class Program:
    def __init__(self, sources, root='<memory>', reuse=None):
        self.root = root
        self.sources = sources
        self.modules = {}
        self.funcs = {}
        self.classes = {}
        self.parse_errors = []
        # renamed / moved functions and renamed fields get their known names back before anything else looks at the trees
        pre = {}
        try:
            changed = [rp for rp in sorted(sources) if rp.endswith('.py') and
                       not (reuse is not None and _modname(rp) in reuse.modules and reuse.modules[_modname(rp)].src == sources[rp])]
            if reuse is None or changed:
                trees = {rp: ast.parse(sources[rp], filename=rp) for rp in changed}
                if _quick_has_unknown_or_vanished(trees):
                    trees = {rp: trees[rp] if rp in trees else ast.parse(sources[rp], filename=rp) for rp in sorted(sources) if rp.endswith('.py')}
                    if undo_renames(trees):
                        pre = trees
                        reuse = None
                    else:
                        pre = {rp: t for rp, t in trees.items() if rp in changed}
                else:
                    pre = trees
        except SyntaxError as ex:
            raise AnalysisError('cannot parse: %s' % (ex,))
        # new module-level functions of the changed files: a caller in ANOTHER module sees through them as well
        foreign = {}
        for rp, t in pre.items():
            kn = known_functions().get(rp)
            if kn is None:
                continue
            for st in _toplevel(t.body):
                if isinstance(st, ast.FunctionDef) and st.name not in kn:
                    foreign[(_modname(rp), st.name)] = (st, t)
        if foreign and reuse is not None:
            # callers may live in files that did not change
            reuse = None
            pre = {rp: pre[rp] if rp in pre else ast.parse(sources[rp], filename=rp) for rp in sorted(sources) if rp.endswith('.py')}
        for relpath in sorted(sources):
            if not relpath.endswith('.py'):
                continue
            name = _modname(relpath)
            try:
                mod = Module(name, relpath, sources[relpath],
                             reuse.modules.get(name) if reuse is not None else None, tree=pre.get(relpath), foreign=foreign)
            except SyntaxError as ex:
                raise AnalysisError('cannot parse %s: %s' % (relpath, ex))
            self.modules[name] = mod
        for mod in self.modules.values():
            self._index_module(mod)
        self.aliases = {}
        # nested functions that rules refer to by their known name are also found by what they do (a lifted and restored closure may have a new name)
        for q, pred in NESTED_ROLES.items():
            hostq, name = q.rsplit('.', 1)
            host = self.funcs.get(hostq)
            if host is not None and name not in host.nested:
                cands = [g for g in host.nested.values() if pred(g.node)]
                if len(cands) == 1:
                    self.aliases[q] = cands[0]
                    host.nested = _AliasDict(host.nested, {name: cands[0]})
        self.stubs = _load_stub_types(self, sources)

    # -- indexing -----------------------------------------------------
    def _index_module(self, mod):
        self._collect_imports(mod, mod.tree, mod.imports)
        for node in _toplevel_statements(mod.tree.body):
            if isinstance(node, (ast.FunctionDef, ast.AsyncFunctionDef)):
                f = self._index_func(mod, node, mod.name + '.' + node.name, None, None)
                mod.funcs[node.name] = f
            elif isinstance(node, ast.ClassDef):
                ci = ClassInfo(mod.name + '.' + node.name, mod, node)
                mod.classes[node.name] = ci
                self.classes[ci.qualname] = ci
                for sub in _toplevel_statements(node.body):
                    if isinstance(sub, (ast.FunctionDef, ast.AsyncFunctionDef)):
                        f = self._index_func(mod, sub, ci.qualname + '.' + sub.name, ci, None)
                        # setter/deleter overloads keep the first (getter) under the
                        # plain name and later ones under name@N
                        key = sub.name
                        k = 1
                        while key in ci.methods:
                            k += 1
                            key = '%s@%d' % (sub.name, k)
                        ci.methods[key] = f
                    elif isinstance(sub, ast.Assign) and len(sub.targets) == 1 and isinstance(sub.targets[0], ast.Name):
                        ci.assigns[sub.targets[0].id] = sub.value
            elif isinstance(node, ast.Assign):
                for t in node.targets:
                    if isinstance(t, ast.Name):
                        mod.assigns[t.id] = node.value

    def _index_func(self, mod, node, qualname, cls, parent):
        f = Func(qualname, mod, node, cls, parent)
        if qualname in self.funcs:
            k = 2
            while '%s@%d' % (qualname, k) in self.funcs:
                k += 1
            f.qualname = qualname = '%s@%d' % (qualname, k)
        self.funcs[qualname] = f
        for sub in _nested_defs(node):
            g = self._index_func(mod, sub, qualname + '.' + sub.name, cls, f)
            f.nested[sub.name] = g
        return f

    def _collect_imports(self, mod, tree, table):
        for node in ast.walk(tree):
            if isinstance(node, ast.Import):
                for a in node.names:
                    if a.asname:
                        table.setdefault(a.asname, ('mod', a.name))
                    else:
                        table.setdefault(a.name.split('.')[0], ('mod', a.name.split('.')[0]))
            elif isinstance(node, ast.ImportFrom):
                base = node.module or ''
                if node.level:
                    pkgparts = mod.name.split('.')
                    if not mod.relpath.endswith('__init__.py'):
                        pkgparts = pkgparts[:-1]
                    pkgparts = pkgparts[:len(pkgparts) - node.level + 1]
                    base = '.'.join(pkgparts + ([node.module] if node.module else []))
                for a in node.names:
                    if a.name == '*':
                        continue
                    table.setdefault(a.asname or a.name, ('sym', base, a.name))

    # -- lookup ---------------------------------------------------------
    def module(self, name):
        if name not in self.modules:
            raise AnalysisError('anchor module vanished: %s' % name)
        return self.modules[name]

    def func(self, qualname):
        if qualname not in self.funcs:
            if qualname in getattr(self, 'aliases', {}):
                f = self.aliases[qualname]
                self.accessed.append(f)
                return f
            raise AnalysisError('anchor function vanished: %s' % qualname)
        self.accessed.append(self.funcs[qualname])
        return self.funcs[qualname]

    accessed = []

    def unseen_machinery(self, f):
        """what a function of the analysed program leans on that did not exist when the tree was read and that the loader could not fold back into
        it: new functions and classes of its module (or imported new ones), new methods, new class-level tables of them.  A rule that reads such
        a function sees only part of what it does."""
        mod = f.module
        cache = getattr(mod, '_new_names', None)
        if cache is None:
            known = known_functions().get(mod.relpath)
            names, attrs = set(), set()
            if known is not None:
                known_attr_words = {k.split('.')[-1] for k in known}
                for st in _toplevel(mod.tree.body):
                    if isinstance(st, (ast.FunctionDef, ast.AsyncFunctionDef)) and st.name not in known:
                        names.add(st.name)
                    elif isinstance(st, ast.ClassDef):
                        if st.name + '.' not in known:
                            names.add(st.name)
                            continue
                        for m in st.body:
                            if isinstance(m, (ast.FunctionDef, ast.AsyncFunctionDef)) and (st.name + '.' + m.name) not in known and m.name not in known_attr_words:
                                attrs.add(m.name)
                for local, tgt in mod.imports.items():
                    if tgt[0] == 'sym' and tgt[1] in self.modules:
                        other = self.modules[tgt[1]]
                        ok_ = known_functions().get(other.relpath)
                        if ok_ is not None and tgt[2] not in ok_ and (tgt[2] + '.') not in ok_ and (tgt[2] in other.funcs or tgt[2] in other.classes):
                            names.add(local)
                # tables of new callables: module level and class level
                kc = set(_KNOWN_EXTRA.get('constants', {}).get(mod.relpath) or ())
                changed = True
                while changed:
                    changed = False
                    for st in _toplevel(mod.tree.body):
                        if isinstance(st, ast.Assign) and all(isinstance(t, ast.Name) for t in st.targets) and not any(t.id in kc or t.id in names for t in st.targets):
                            if any((isinstance(y, ast.Name) and y.id in names) or (isinstance(y, ast.Attribute) and y.attr in attrs) or isinstance(y, ast.Lambda) for y in ast.walk(st.value)):
                                names.update(t.id for t in st.targets)
                                changed = True
                        elif isinstance(st, ast.ClassDef) and st.name + '.' in known:
                            for m in st.body:
                                if isinstance(m, ast.Assign) and all(isinstance(t, ast.Name) for t in m.targets) and not any(t.id in attrs or t.id in known_attr_words for t in m.targets):
                                    if any((isinstance(y, ast.Name) and (y.id in names or y.id in attrs)) or (isinstance(y, ast.Attribute) and y.attr in attrs) or
                                           (isinstance(y, ast.Constant) and y.value in attrs) or isinstance(y, ast.Lambda) for y in ast.walk(m.value)):
                                        attrs.update(t.id for t in m.targets)
                                        changed = True
            cache = mod._new_names = (names, attrs)
        names, attrs = cache
        if not names and not attrs:
            return []
        out = set()
        own = {x.id for x in ast.walk(f.node) if isinstance(x, ast.Name) and isinstance(x.ctx, ast.Store)} | {a.arg for a in f.node.args.posonlyargs + f.node.args.args + f.node.args.kwonlyargs}
        for x in ast.walk(f.node):
            if isinstance(x, ast.Name) and isinstance(x.ctx, ast.Load) and x.id in names and x.id not in own:
                out.add(x.id)
            elif isinstance(x, ast.Attribute) and x.attr in attrs:
                out.add('.' + x.attr)
        return sorted(out)

    def cls(self, qualname):
        if qualname not in self.classes:
            raise AnalysisError('anchor class vanished: %s' % qualname)
        return self.classes[qualname]

    def has_func(self, qualname):
        return qualname in self.funcs or qualname in getattr(self, 'aliases', {})

    def resolve_symbol(self, modname, symbol, _depth=0):
        """Resolve `symbol` looked up as attribute of module `modname`.
        Returns ('func', Func) | ('class', ClassInfo) | ('mod', name) |
        ('var', modname, symbol) | ('ext', dotted) """
        if _depth > 8:
            return ('ext', modname + '.' + symbol)
        if modname in self.modules:
            mod = self.modules[modname]
            if symbol in mod.funcs:
                return ('func', mod.funcs[symbol])
            if symbol in mod.classes:
                return ('class', mod.classes[symbol])
            if symbol in mod.assigns:
                return ('var', modname, symbol)
            if modname + '.' + symbol in self.modules:
                return ('mod', modname + '.' + symbol)
            if symbol in mod.imports:
                imp = mod.imports[symbol]
                if imp[0] == 'mod':
                    return ('mod', imp[1])
                return self.resolve_symbol(imp[1], imp[2], _depth + 1)
            sub = modname + '.' + symbol
            if sub in self.modules:
                return ('mod', sub)
            return ('var', modname, symbol)
        sub = modname + '.' + symbol
        if sub in self.modules:
            return ('mod', sub)
        return ('ext', sub)

    def mro(self, ci):
        """repo classes in (approximate, linearised) MRO order, plus external
        base dotted names."""
        out, ext, seen = [], [], set()
        work = [ci]
        while work:
            c = work.pop(0)
            if c.qualname in seen:
                continue
            seen.add(c.qualname)
            out.append(c)
            for b in c.bases:
                r = self.resolve_expr_static(c.module, b)
                if r and r[0] == 'class':
                    work.append(r[1])
                elif r and r[0] == 'ext':
                    ext.append(r[1])
                elif isinstance(b, ast.Name) and hasattr(builtins, b.id):
                    ext.append('builtins.' + b.id)
        return out, ext

    def find_method(self, ci, name):
        classes, _ = self.mro(ci)
        for c in classes:
            if name in c.methods:
                return c.methods[name]
        return None

    def resolve_expr_static(self, mod, expr):
        """Resolve a Name / dotted Attribute expression in module scope."""
        if isinstance(expr, ast.Name):
            if expr.id in mod.funcs:
                return ('func', mod.funcs[expr.id])
            if expr.id in mod.classes:
                return ('class', mod.classes[expr.id])
            if expr.id in mod.imports:
                imp = mod.imports[expr.id]
                if imp[0] == 'mod':
                    return ('mod', imp[1])
                return self.resolve_symbol(imp[1], imp[2])
            if expr.id in mod.assigns:
                return ('var', mod.name, expr.id)
            if hasattr(builtins, expr.id):
                return ('ext', 'builtins.' + expr.id)
            return None
        if isinstance(expr, ast.Attribute):
            base = self.resolve_expr_static(mod, expr.value)
            if base is None:
                return None
            if base[0] == 'mod':
                return self.resolve_symbol(base[1], expr.attr)
            if base[0] == 'ext':
                return ('ext', base[1] + '.' + expr.attr)
            if base[0] == 'class':
                m = self.find_method(base[1], expr.attr)
                if m is not None:
                    return ('func', m)
                return ('classattr', base[1], expr.attr)
            return None
        return None

    def stats(self):
        ncalls = sum(1 for m in self.modules.values() for n in ast.walk(m.tree) if isinstance(n, ast.Call))
        return {
            'modules': len(self.modules),
            'functions': len(self.funcs),
            'classes': len(self.classes),
            'call_sites': ncalls,
            'lines': sum(len(m.lines) for m in self.modules.values()),
        }


def _toplevel_statements(body):
    """statements of a module/class body, looking through If/Try/With blocks
    (definitions under ordinary conditionals are still module-level)."""
    for node in body:
        yield node
        if isinstance(node, ast.If):
            yield from _toplevel_statements(node.body)
            yield from _toplevel_statements(node.orelse)
        elif isinstance(node, ast.Try):
            yield from _toplevel_statements(node.body)
            for h in node.handlers:
                yield from _toplevel_statements(h.body)
            yield from _toplevel_statements(node.orelse)
            yield from _toplevel_statements(node.finalbody)
        elif isinstance(node, ast.With):
            yield from _toplevel_statements(node.body)


def _nested_defs(fnode):
    """function definitions nested directly (at any statement depth, but not
    inside another def/class) in fnode."""
    out = []

    def walk(n):
        for c in ast.iter_child_nodes(n):
            if isinstance(c, (ast.FunctionDef, ast.AsyncFunctionDef)):
                out.append(c)
            elif isinstance(c, (ast.ClassDef, ast.Lambda)):
                continue
            else:
                walk(c)
    walk(fnode)
    return out


def _modname(relpath):
    p = relpath[:-3].replace(os.sep, '/')
    parts = p.split('/')
    if parts[-1] == '__init__':
        parts = parts[:-1]
    return '.'.join(parts)


def load_tree(root):
    """root: directory that contains the `xdoctest` package directory."""
    sources = {}
    pkgdir = os.path.join(root, PKG)
    if not os.path.isdir(pkgdir):
        raise AnalysisError('package directory not found: %s' % pkgdir)
    for dpath, dnames, fnames in os.walk(pkgdir):
        dnames[:] = sorted(d for d in dnames if d != '__pycache__')
        for fn in sorted(fnames):
            if fn.endswith('.py') or fn.endswith('.pyi'):
                full = os.path.join(dpath, fn)
                rel = os.path.relpath(full, root)
                with open(full, 'r', encoding='utf-8') as f:
                    sources[rel] = f.read()
    return sources


def _load_stub_types(prog, sources):
    """Read the package's own .pyi stubs as a type table:
    {class qualname: {attr: annotation-name}}, {func qualname: {param: annotation-name}}."""
    attrs, params = {}, {}
    for relpath, src in sources.items():
        if not relpath.endswith('.pyi'):
            continue
        modname = _modname(relpath[:-1])
        try:
            tree = ast.parse(src)
        except SyntaxError:
            continue
        for node in tree.body:
            if isinstance(node, ast.ClassDef):
                cq = modname + '.' + node.name
                table = attrs.setdefault(cq, {})
                for sub in node.body:
                    if isinstance(sub, ast.AnnAssign) and isinstance(sub.target, ast.Name):
                        table[sub.target.id] = _ann_name(sub.annotation)
                    elif isinstance(sub, (ast.FunctionDef, ast.AsyncFunctionDef)):
                        params[cq + '.' + sub.name] = {
                            a.arg: _ann_name(a.annotation) for a in sub.args.args + sub.args.kwonlyargs if a.annotation is not None}
            elif isinstance(node, (ast.FunctionDef, ast.AsyncFunctionDef)):
                params[modname + '.' + node.name] = {
                    a.arg: _ann_name(a.annotation) for a in node.args.args + node.args.kwonlyargs if a.annotation is not None}
    return {'attrs': attrs, 'params': params}


def _ann_name(ann):
    if ann is None:
        return None
    if isinstance(ann, ast.Name):
        return ann.id
    if isinstance(ann, ast.Attribute):
        return ann.attr
    if isinstance(ann, ast.Constant) and isinstance(ann.value, str):
        return ann.value.split('.')[-1]
    if isinstance(ann, ast.BinOp) and isinstance(ann.op, ast.BitOr):
        # X | None  -> X
        l, r = _ann_name(ann.left), _ann_name(ann.right)
        if r in (None, 'None'):
            return l
        if l in (None, 'None'):
            return r
        return None
    return None


# ---------------------------------------------------------------------
# builtin exception hierarchy (a language fact, taken from `builtins`)

def builtin_exception_bases(name):
    obj = getattr(builtins, name, None)
    if isinstance(obj, type) and issubclass(obj, BaseException):
        return [c.__name__ for c in obj.__mro__ if c is not object]
    return None
