"""
L0: load the package under analysis from source text only.

Nothing here imports or executes code of the analysed tree.  The unit of
analysis is a mapping {relative path: source text}; `load_tree` builds it from
a directory, the self-test builds it in memory from edited sources.
"""
import ast
import os
import builtins


PKG = 'xdoctest'


class AnalysisError(Exception):
    """The analysis could not be carried out (exit 2): vanished anchor,
    unrecognised idiom, instance floor not met."""


class _Desugar(ast.NodeTransformer):
    """semantics-preserving normalisation applied before any analysis, so that rules phrased over statements and branch edges see through
    expression-level idioms:  `t = a if c else b`  ->  `if c: t = a  else: t = b`  (same for `return`); only inside function bodies."""

    def __init__(self):
        self.depth = 0

    def _func(self, node):
        self.depth += 1
        self.generic_visit(node)
        self.depth -= 1
        return node
    visit_FunctionDef = _func
    visit_AsyncFunctionDef = _func

    def visit_Lambda(self, node):
        return node

    def _split(self, node, value, make):
        if self.depth == 0 or not isinstance(value, ast.IfExp):
            return node
        body = make(value.body)
        orelse = make(value.orelse)
        new = ast.If(test=value.test, body=[body], orelse=[orelse])
        for x in (new, body, orelse):
            ast.copy_location(x, node)
        new._desugared = True
        # nested conditional expressions
        new.body = [self.visit(body)] if not isinstance(self.visit(body), list) else self.visit(body)
        new.orelse = [self.visit(orelse)] if not isinstance(self.visit(orelse), list) else self.visit(orelse)
        return new

    def visit_Assign(self, node):
        if len(node.targets) == 1 and isinstance(node.targets[0], (ast.Name, ast.Attribute, ast.Subscript)):
            import copy
            return self._split(node, node.value, lambda v: ast.Assign(targets=[copy.deepcopy(node.targets[0])], value=v, type_comment=None))
        return node

    def visit_Return(self, node):
        return self._split(node, node.value, lambda v: ast.Return(value=v))


class Module:
    def __init__(self, name, relpath, src, reuse=None):
        self.name = name
        self.relpath = relpath
        self.src = src
        if reuse is not None and reuse.src == src:
            # unchanged file of a variant: share the (read-only) tree
            self.lines = reuse.lines
            self.tree = reuse.tree
            self.imports = {}
            self.funcs = {}
            self.classes = {}
            self.assigns = {}
            return
        self.lines = src.splitlines()
        self.tree = ast.fix_missing_locations(_Desugar().visit(ast.parse(src, filename=relpath)))
        self.imports = {}      # local name -> ('mod', dotted) | ('sym', dotted_module, symbol)
        self.funcs = {}        # top-level name -> Func
        self.classes = {}      # top-level name -> ClassInfo
        self.assigns = {}      # module level NAME -> value expr (last simple assignment)
        for n in ast.walk(self.tree):
            for c in ast.iter_child_nodes(n):
                c._parent = n
        self.tree._parent = None

    def __repr__(self):
        return '<Module %s>' % self.name


class Func:
    def __init__(self, qualname, module, node, cls=None, parent=None):
        self.qualname = qualname
        self.module = module
        self.node = node
        self.cls = cls
        self.parent = parent
        self.nested = {}

    @property
    def name(self):
        return self.node.name

    def loc(self, node=None):
        node = self.node if node is None else node
        return '%s:%d' % (self.module.relpath, getattr(node, 'lineno', 0))

    def __repr__(self):
        return '<Func %s>' % self.qualname


class ClassInfo:
    def __init__(self, qualname, module, node):
        self.qualname = qualname
        self.module = module
        self.node = node
        self.methods = {}     # name -> Func
        self.assigns = {}     # class level NAME -> value expr
        self.bases = list(node.bases)

    @property
    def name(self):
        return self.node.name

    def __repr__(self):
        return '<Class %s>' % self.qualname


class Program:
    def __init__(self, sources, root='<memory>', reuse=None):
        self.root = root
        self.sources = sources
        self.modules = {}
        self.funcs = {}
        self.classes = {}
        self.parse_errors = []
        for relpath in sorted(sources):
            if not relpath.endswith('.py'):
                continue
            name = _modname(relpath)
            try:
                mod = Module(name, relpath, sources[relpath],
                             reuse.modules.get(name) if reuse is not None else None)
            except SyntaxError as ex:
                raise AnalysisError('cannot parse %s: %s' % (relpath, ex))
            self.modules[name] = mod
        for mod in self.modules.values():
            self._index_module(mod)
        self.stubs = _load_stub_types(self, sources)

    # -- indexing -----------------------------------------------------
    def _index_module(self, mod):
        self._collect_imports(mod, mod.tree, mod.imports)
        for node in _toplevel_statements(mod.tree.body):
            if isinstance(node, (ast.FunctionDef, ast.AsyncFunctionDef)):
                f = self._index_func(mod, node, mod.name + '.' + node.name, None, None)
                mod.funcs[node.name] = f
            elif isinstance(node, ast.ClassDef):
                ci = ClassInfo(mod.name + '.' + node.name, mod, node)
                mod.classes[node.name] = ci
                self.classes[ci.qualname] = ci
                for sub in _toplevel_statements(node.body):
                    if isinstance(sub, (ast.FunctionDef, ast.AsyncFunctionDef)):
                        f = self._index_func(mod, sub, ci.qualname + '.' + sub.name, ci, None)
                        # setter/deleter overloads keep the first (getter) under the
                        # plain name and later ones under name@N
                        key = sub.name
                        k = 1
                        while key in ci.methods:
                            k += 1
                            key = '%s@%d' % (sub.name, k)
                        ci.methods[key] = f
                    elif isinstance(sub, ast.Assign) and len(sub.targets) == 1 and isinstance(sub.targets[0], ast.Name):
                        ci.assigns[sub.targets[0].id] = sub.value
            elif isinstance(node, ast.Assign):
                for t in node.targets:
                    if isinstance(t, ast.Name):
                        mod.assigns[t.id] = node.value

    def _index_func(self, mod, node, qualname, cls, parent):
        f = Func(qualname, mod, node, cls, parent)
        if qualname in self.funcs:
            k = 2
            while '%s@%d' % (qualname, k) in self.funcs:
                k += 1
            f.qualname = qualname = '%s@%d' % (qualname, k)
        self.funcs[qualname] = f
        for sub in _nested_defs(node):
            g = self._index_func(mod, sub, qualname + '.' + sub.name, cls, f)
            f.nested[sub.name] = g
        return f

    def _collect_imports(self, mod, tree, table):
        for node in ast.walk(tree):
            if isinstance(node, ast.Import):
                for a in node.names:
                    if a.asname:
                        table.setdefault(a.asname, ('mod', a.name))
                    else:
                        table.setdefault(a.name.split('.')[0], ('mod', a.name.split('.')[0]))
            elif isinstance(node, ast.ImportFrom):
                base = node.module or ''
                if node.level:
                    pkgparts = mod.name.split('.')
                    if not mod.relpath.endswith('__init__.py'):
                        pkgparts = pkgparts[:-1]
                    pkgparts = pkgparts[:len(pkgparts) - node.level + 1]
                    base = '.'.join(pkgparts + ([node.module] if node.module else []))
                for a in node.names:
                    if a.name == '*':
                        continue
                    table.setdefault(a.asname or a.name, ('sym', base, a.name))

    # -- lookup ---------------------------------------------------------
    def module(self, name):
        if name not in self.modules:
            raise AnalysisError('anchor module vanished: %s' % name)
        return self.modules[name]

    def func(self, qualname):
        if qualname not in self.funcs:
            raise AnalysisError('anchor function vanished: %s' % qualname)
        return self.funcs[qualname]

    def cls(self, qualname):
        if qualname not in self.classes:
            raise AnalysisError('anchor class vanished: %s' % qualname)
        return self.classes[qualname]

    def has_func(self, qualname):
        return qualname in self.funcs

    def resolve_symbol(self, modname, symbol, _depth=0):
        """Resolve `symbol` looked up as attribute of module `modname`.
        Returns ('func', Func) | ('class', ClassInfo) | ('mod', name) |
        ('var', modname, symbol) | ('ext', dotted) """
        if _depth > 8:
            return ('ext', modname + '.' + symbol)
        if modname in self.modules:
            mod = self.modules[modname]
            if symbol in mod.funcs:
                return ('func', mod.funcs[symbol])
            if symbol in mod.classes:
                return ('class', mod.classes[symbol])
            if symbol in mod.assigns:
                return ('var', modname, symbol)
            if modname + '.' + symbol in self.modules:
                return ('mod', modname + '.' + symbol)
            if symbol in mod.imports:
                imp = mod.imports[symbol]
                if imp[0] == 'mod':
                    return ('mod', imp[1])
                return self.resolve_symbol(imp[1], imp[2], _depth + 1)
            sub = modname + '.' + symbol
            if sub in self.modules:
                return ('mod', sub)
            return ('var', modname, symbol)
        sub = modname + '.' + symbol
        if sub in self.modules:
            return ('mod', sub)
        return ('ext', sub)

    def mro(self, ci):
        """repo classes in (approximate, linearised) MRO order, plus external
        base dotted names."""
        out, ext, seen = [], [], set()
        work = [ci]
        while work:
            c = work.pop(0)
            if c.qualname in seen:
                continue
            seen.add(c.qualname)
            out.append(c)
            for b in c.bases:
                r = self.resolve_expr_static(c.module, b)
                if r and r[0] == 'class':
                    work.append(r[1])
                elif r and r[0] == 'ext':
                    ext.append(r[1])
                elif isinstance(b, ast.Name) and hasattr(builtins, b.id):
                    ext.append('builtins.' + b.id)
        return out, ext

    def find_method(self, ci, name):
        classes, _ = self.mro(ci)
        for c in classes:
            if name in c.methods:
                return c.methods[name]
        return None

    def resolve_expr_static(self, mod, expr):
        """Resolve a Name / dotted Attribute expression in module scope."""
        if isinstance(expr, ast.Name):
            if expr.id in mod.funcs:
                return ('func', mod.funcs[expr.id])
            if expr.id in mod.classes:
                return ('class', mod.classes[expr.id])
            if expr.id in mod.imports:
                imp = mod.imports[expr.id]
                if imp[0] == 'mod':
                    return ('mod', imp[1])
                return self.resolve_symbol(imp[1], imp[2])
            if expr.id in mod.assigns:
                return ('var', mod.name, expr.id)
            if hasattr(builtins, expr.id):
                return ('ext', 'builtins.' + expr.id)
            return None
        if isinstance(expr, ast.Attribute):
            base = self.resolve_expr_static(mod, expr.value)
            if base is None:
                return None
            if base[0] == 'mod':
                return self.resolve_symbol(base[1], expr.attr)
            if base[0] == 'ext':
                return ('ext', base[1] + '.' + expr.attr)
            if base[0] == 'class':
                m = self.find_method(base[1], expr.attr)
                if m is not None:
                    return ('func', m)
                return ('classattr', base[1], expr.attr)
            return None
        return None

    def stats(self):
        ncalls = sum(1 for m in self.modules.values() for n in ast.walk(m.tree) if isinstance(n, ast.Call))
        return {
            'modules': len(self.modules),
            'functions': len(self.funcs),
            'classes': len(self.classes),
            'call_sites': ncalls,
            'lines': sum(len(m.lines) for m in self.modules.values()),
        }


def _toplevel_statements(body):
    """statements of a module/class body, looking through If/Try/With blocks
    (definitions under ordinary conditionals are still module-level)."""
    for node in body:
        yield node
        if isinstance(node, ast.If):
            yield from _toplevel_statements(node.body)
            yield from _toplevel_statements(node.orelse)
        elif isinstance(node, ast.Try):
            yield from _toplevel_statements(node.body)
            for h in node.handlers:
                yield from _toplevel_statements(h.body)
            yield from _toplevel_statements(node.orelse)
            yield from _toplevel_statements(node.finalbody)
        elif isinstance(node, ast.With):
            yield from _toplevel_statements(node.body)


def _nested_defs(fnode):
    """function definitions nested directly (at any statement depth, but not
    inside another def/class) in fnode."""
    out = []

    def walk(n):
        for c in ast.iter_child_nodes(n):
            if isinstance(c, (ast.FunctionDef, ast.AsyncFunctionDef)):
                out.append(c)
            elif isinstance(c, (ast.ClassDef, ast.Lambda)):
                continue
            else:
                walk(c)
    walk(fnode)
    return out


def _modname(relpath):
    p = relpath[:-3].replace(os.sep, '/')
    parts = p.split('/')
    if parts[-1] == '__init__':
        parts = parts[:-1]
    return '.'.join(parts)


def load_tree(root):
    """root: directory that contains the `xdoctest` package directory."""
    sources = {}
    pkgdir = os.path.join(root, PKG)
    if not os.path.isdir(pkgdir):
        raise AnalysisError('package directory not found: %s' % pkgdir)
    for dpath, dnames, fnames in os.walk(pkgdir):
        dnames[:] = sorted(d for d in dnames if d != '__pycache__')
        for fn in sorted(fnames):
            if fn.endswith('.py') or fn.endswith('.pyi'):
                full = os.path.join(dpath, fn)
                rel = os.path.relpath(full, root)
                with open(full, 'r', encoding='utf-8') as f:
                    sources[rel] = f.read()
    return sources


def _load_stub_types(prog, sources):
    """Read the package's own .pyi stubs as a type table:
    {class qualname: {attr: annotation-name}}, {func qualname: {param: annotation-name}}."""
    attrs, params = {}, {}
    for relpath, src in sources.items():
        if not relpath.endswith('.pyi'):
            continue
        modname = _modname(relpath[:-1])
        try:
            tree = ast.parse(src)
        except SyntaxError:
            continue
        for node in tree.body:
            if isinstance(node, ast.ClassDef):
                cq = modname + '.' + node.name
                table = attrs.setdefault(cq, {})
                for sub in node.body:
                    if isinstance(sub, ast.AnnAssign) and isinstance(sub.target, ast.Name):
                        table[sub.target.id] = _ann_name(sub.annotation)
                    elif isinstance(sub, (ast.FunctionDef, ast.AsyncFunctionDef)):
                        params[cq + '.' + sub.name] = {
                            a.arg: _ann_name(a.annotation) for a in sub.args.args + sub.args.kwonlyargs if a.annotation is not None}
            elif isinstance(node, (ast.FunctionDef, ast.AsyncFunctionDef)):
                params[modname + '.' + node.name] = {
                    a.arg: _ann_name(a.annotation) for a in node.args.args + node.args.kwonlyargs if a.annotation is not None}
    return {'attrs': attrs, 'params': params}


def _ann_name(ann):
    if ann is None:
        return None
    if isinstance(ann, ast.Name):
        return ann.id
    if isinstance(ann, ast.Attribute):
        return ann.attr
    if isinstance(ann, ast.Constant) and isinstance(ann.value, str):
        return ann.value.split('.')[-1]
    if isinstance(ann, ast.BinOp) and isinstance(ann.op, ast.BitOr):
        # X | None  -> X
        l, r = _ann_name(ann.left), _ann_name(ann.right)
        if r in (None, 'None'):
            return l
        if l in (None, 'None'):
            return r
        return None
    return None


# ---------------------------------------------------------------------
# builtin exception hierarchy (a language fact, taken from `builtins`)

def builtin_exception_bases(name):
    obj = getattr(builtins, name, None)
    if isinstance(obj, type) and issubclass(obj, BaseException):
        return [c.__name__ for c in obj.__mro__ if c is not object]
    return None
