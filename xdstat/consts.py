"""
L0 constant folding of module-level strings / tuples / compiled regexes and
L7 regex facts (queries over `re._parser` parse trees).
"""
import ast
import re
import re._parser as sre_parse
import re._constants as sre_c

from .loader import AnalysisError


class NotConstant(Exception):
    pass


class Folder:
    def __init__(self, prog, resolver=None):
        self.prog = prog
        self.resolver = resolver

    def fold(self, mod, expr, env=None, func=None, depth=0):
        """python value of a constant expression evaluated in module `mod`
        (with local bindings `env`); raises NotConstant."""
        if depth > 20:
            raise NotConstant('too deep')
        env = env or {}
        f = lambda e: self.fold(mod, e, env, func, depth + 1)
        if isinstance(expr, ast.Constant):
            return expr.value
        if isinstance(expr, ast.Name):
            if expr.id in env:
                return env[expr.id]
            if func is not None:
                v = self._local_const(mod, func, expr.id, depth)
                if v is not _MISSING:
                    return v
            if expr.id in mod.assigns:
                return self.fold(mod, mod.assigns[expr.id], None, None, depth + 1)
            imp = mod.imports.get(expr.id)
            if imp and imp[0] == 'sym':
                r = self.prog.resolve_symbol(imp[1], imp[2])
                if r[0] == 'var' and r[1] in self.prog.modules:
                    m2 = self.prog.modules[r[1]]
                    if r[2] in m2.assigns:
                        return self.fold(m2, m2.assigns[r[2]], None, None, depth + 1)
            raise NotConstant(expr.id)
        if isinstance(expr, ast.Attribute):
            # module.CONST  /  re.FLAG
            base = self.prog.resolve_expr_static(mod, expr.value)
            if base and base[0] == 'mod':
                if base[1] == 're' and hasattr(re, expr.attr) and isinstance(getattr(re, expr.attr), int):
                    return int(getattr(re, expr.attr))
                if base[1] in self.prog.modules:
                    m2 = self.prog.modules[base[1]]
                    if expr.attr in m2.assigns:
                        return self.fold(m2, m2.assigns[expr.attr], None, None, depth + 1)
            raise NotConstant(ast.unparse(expr))
        if isinstance(expr, (ast.Tuple, ast.List)):
            vals = [f(e) for e in expr.elts]
            return tuple(vals) if isinstance(expr, ast.Tuple) else vals
        if isinstance(expr, ast.Set):
            return set(f(e) for e in expr.elts)
        if isinstance(expr, ast.BinOp):
            l, r = f(expr.left), f(expr.right)
            try:
                if isinstance(expr.op, ast.Add):
                    return l + r
                if isinstance(expr.op, ast.Mod):
                    return l % r
                if isinstance(expr.op, ast.BitOr):
                    return l | r
                if isinstance(expr.op, ast.Mult):
                    return l * r
                if isinstance(expr.op, ast.Sub):
                    return l - r
            except Exception as ex:
                raise NotConstant(str(ex))
            raise NotConstant('binop')
        if isinstance(expr, ast.JoinedStr):
            out = ''
            for v in expr.values:
                if isinstance(v, ast.Constant):
                    out += v.value
                elif isinstance(v, ast.FormattedValue) and v.format_spec is None and v.conversion == -1:
                    out += str(f(v.value))
                else:
                    raise NotConstant('fstring')
            return out
        if isinstance(expr, ast.Call):
            fn = expr.func
            if isinstance(fn, ast.Attribute):
                m = fn.attr
                # re.escape / re.compile
                base = self.prog.resolve_expr_static(mod, fn.value) if isinstance(fn.value, (ast.Name, ast.Attribute)) else None
                if base and base[0] == 'mod' and base[1] == 're':
                    if m == 'escape' and len(expr.args) == 1:
                        return re.escape(f(expr.args[0]))
                    if m == 'compile':
                        pat = f(expr.args[0])
                        flags = 0
                        if len(expr.args) > 1:
                            flags = f(expr.args[1])
                        for kw in expr.keywords:
                            if kw.arg == 'flags':
                                flags = f(kw.value)
                        return Regex(pat, flags)
                if base and base[0] == 'mod' and base[1] in self.prog.modules:
                    r = self.prog.resolve_symbol(base[1], m)
                    if r[0] == 'func':
                        return self._fold_call(r[1], expr, mod, env, func, depth)
                recv = None
                try:
                    recv = f(fn.value)
                except NotConstant:
                    raise
                args = [f(a) for a in expr.args]
                kwargs = {kw.arg: f(kw.value) for kw in expr.keywords if kw.arg}
                if isinstance(recv, str) and m in ('format', 'join', 'lower', 'upper', 'strip', 'replace', 'lstrip', 'rstrip'):
                    try:
                        return getattr(recv, m)(*args, **kwargs)
                    except Exception as ex:
                        raise NotConstant(str(ex))
                if isinstance(recv, dict) and m == 'keys' and not args:
                    return list(recv.keys())
                raise NotConstant('method %s' % m)
            if isinstance(fn, ast.Name):
                if fn.id in ('list', 'tuple', 'set', 'frozenset', 'sorted') and len(expr.args) == 1:
                    v = f(expr.args[0])
                    return {'list': list, 'tuple': tuple, 'set': set, 'frozenset': frozenset, 'sorted': sorted}[fn.id](v)
                if fn.id in mod.funcs:
                    return self._fold_call(mod.funcs[fn.id], expr, mod, env, func, depth)
            raise NotConstant('call %s' % ast.unparse(fn))
        if isinstance(expr, ast.Dict):
            out = {}
            for k, v in zip(expr.keys, expr.values):
                if k is None:
                    raise NotConstant('dict unpack')
                kk = f(k)
                try:
                    out[kk] = f(v)
                except NotConstant:
                    out[kk] = _Opaque(v)
            return out
        if isinstance(expr, ast.ListComp) and len(expr.generators) == 1 and not expr.generators[0].ifs:
            gen = expr.generators[0]
            if isinstance(gen.target, ast.Name):
                it = f(gen.iter)
                out = []
                for x in it:
                    e2 = dict(env)
                    e2[gen.target.id] = x
                    out.append(self.fold(mod, expr.elt, e2, func, depth + 1))
                return out
        raise NotConstant(type(expr).__name__)

    def _fold_call(self, callee, call, mod, env, func, depth):
        """pure helper of <= 3 statements ending in `return <foldable>`"""
        body = [s for s in callee.node.body if not (isinstance(s, ast.Expr) and isinstance(s.value, ast.Constant))]
        if len(body) > 3 or not body or not isinstance(body[-1], ast.Return):
            raise NotConstant('helper too large: %s' % callee.qualname)
        params = [a.arg for a in callee.node.args.args]
        e2 = {}
        for p, a in zip(params, call.args):
            e2[p] = self.fold(mod, a, env, func, depth + 1)
        for kw in call.keywords:
            e2[kw.arg] = self.fold(mod, kw.value, env, func, depth + 1)
        for s in body[:-1]:
            if isinstance(s, ast.Assign) and len(s.targets) == 1 and isinstance(s.targets[0], ast.Name):
                e2[s.targets[0].id] = self.fold(callee.module, s.value, e2, None, depth + 1)
            else:
                raise NotConstant('helper statement')
        return self.fold(callee.module, body[-1].value, e2, None, depth + 1)

    def _local_const(self, mod, func, name, depth):
        """a local of `func` assigned exactly once (straight-line constant)"""
        stores = [n for n in ast.walk(func.node) if isinstance(n, ast.Name) and n.id == name and isinstance(n.ctx, ast.Store)]
        if len(stores) != 1:
            return _MISSING
        p = getattr(stores[0], '_parent', None)
        if isinstance(p, ast.Assign) and len(p.targets) == 1:
            try:
                return self.fold(mod, p.value, None, func, depth + 1)
            except NotConstant:
                return _MISSING
        return _MISSING

    def module_const(self, modname, name):
        mod = self.prog.module(modname)
        hops = 0
        while name not in mod.assigns and hops < 3:
            # the constant moved to another module of the package and is imported from there under the same (or an `as`) name
            hops += 1
            imp = mod.imports.get(name)
            if imp is not None and imp[0] == 'sym' and imp[1] in self.prog.modules:
                mod, name = self.prog.modules[imp[1]], imp[2]
            else:
                break
        if name not in mod.assigns:
            raise AnalysisError('module constant vanished: %s.%s' % (modname, name))
        try:
            return self.fold(mod, mod.assigns[name])
        except NotConstant as ex:
            raise AnalysisError('cannot fold %s.%s: %s' % (modname, name, ex))


_MISSING = object()


class _Opaque:
    def __init__(self, node):
        self.node = node

    def __repr__(self):
        return '<opaque %s>' % ast.unparse(self.node)


class Regex:
    def __init__(self, pattern, flags=0):
        self.pattern = pattern
        self.flags = int(flags)
        try:
            self.tree = sre_parse.parse(pattern, self.flags)
        except Exception as ex:
            raise AnalysisError('regex does not parse: %r: %s' % (pattern, ex))
        self.items = list(self.tree.data)
        self.groups = dict(self.tree.state.groupdict)
        self.flags = self.tree.state.flags

    def __repr__(self):
        return 'Regex(%r, %d)' % (self.pattern, self.flags)


# ---------------------------------------------------------------------------
# queries

def item_charset(item):
    """set of code points (< 256) an item matches, or None if not a single-char item"""
    op, av = item
    if op is sre_c.LITERAL:
        return {av}
    if op is sre_c.IN:
        out = set()
        neg = False
        for (o, a) in av:
            if o is sre_c.NEGATE:
                neg = True
            elif o is sre_c.LITERAL:
                out.add(a)
            elif o is sre_c.RANGE:
                out |= set(range(a[0], a[1] + 1))
            elif o is sre_c.CATEGORY:
                out |= _category(a)
        if neg:
            out = set(range(256)) - out
        return out
    if op is sre_c.ANY:
        return set(range(256)) - {10}
    return None


def _category(cat):
    chars = set()
    table = {
        sre_c.CATEGORY_SPACE: lambda c: chr(c).isspace(),
        sre_c.CATEGORY_NOT_SPACE: lambda c: not chr(c).isspace(),
        sre_c.CATEGORY_WORD: lambda c: chr(c).isalnum() or chr(c) == '_',
        sre_c.CATEGORY_NOT_WORD: lambda c: not (chr(c).isalnum() or chr(c) == '_'),
        sre_c.CATEGORY_DIGIT: lambda c: chr(c).isdigit(),
        sre_c.CATEGORY_NOT_DIGIT: lambda c: not chr(c).isdigit(),
    }
    fn = table.get(cat)
    if fn is None:
        return chars
    return {c for c in range(256) if fn(c)}


def is_at(item, *which):
    return item[0] is sre_c.AT and item[1] in which


def repeat_of(item):
    """(min, max, [inner items]) for repeat items"""
    op, av = item
    if op in (sre_c.MAX_REPEAT, sre_c.MIN_REPEAT, sre_c.POSSESSIVE_REPEAT):
        return av[0], av[1], list(av[2]), op
    return None


def subpattern(item):
    """(group number, [inner items]) for a group"""
    op, av = item
    if op is sre_c.SUBPATTERN:
        return av[0], list(av[3])
    return None


def branch_alts(item):
    op, av = item
    if op is sre_c.BRANCH:
        return [list(a) for a in av[1]]
    return None


def literal_prefix(items):
    """the string of leading LITERAL items"""
    out = ''
    for it in items:
        if it[0] is sre_c.LITERAL:
            out += chr(it[1])
        else:
            break
    return out


MAXREPEAT = sre_c.MAXREPEAT
AT_BEGINNING = sre_c.AT_BEGINNING
AT_BEGINNING_LINE = sre_c.AT_BEGINNING_LINE
AT_BEGINNING_STRING = sre_c.AT_BEGINNING_STRING
AT_END = sre_c.AT_END
AT_END_LINE = sre_c.AT_END_LINE
AT_END_STRING = sre_c.AT_END_STRING
